package props

import (
	"strings"

	"verifharness/core"
	"verifharness/gen"
	"verifharness/obs"
	"verifharness/ref"
)

var mSummaryWords = []string{"work", "review #code", "call #client=acme", "fix", "#urgent", "lunch", "?", "-5m", "8:00-9:00", "#tag=\"quoted value\"", "über", "100%", "(done)", "foo-bar", "#A #b"}

func mSummary(r *core.Rand, allowMulti bool) []string {
	n := 1
	if allowMulti && r.Chance(1, 4) {
		n = r.Range(2, 3)
	}
	var out []string
	for i := 0; i < n; i++ {
		k := r.Range(1, 3)
		var ws []string
		for j := 0; j < k; j++ {
			ws = append(ws, mSummaryWords[r.Intn(len(mSummaryWords))])
		}
		l := strings.Join(ws, " ")
		if i > 0 && r.Chance(1, 6) {
			l = "  " + l
		}
		out = append(out, l)
	}
	return out
}

// genDateChoice picks how the command selects its date.
func genDateChoice(r *core.Rand, c *MCmd, doc *ref.Doc, env MEnv, allowFar bool) {
	switch r.Intn(10) {
	case 0:
		c.DateFlag = "today"
	case 1:
		c.DateFlag = "yesterday"
	case 2:
		c.DateFlag = "tomorrow"
	case 3, 4:
		// an existing record's date
		if len(doc.Recs) > 0 {
			d := doc.Recs[r.Intn(len(doc.Recs))].Date
			c.Date = &d
		}
	case 5:
		if allowFar {
			d := env.Today.Plus(r.PickInt(-400, -30, -3, -2, 2, 3, 45, 500))
			if d.Representable() {
				c.Date = &d
			}
		}
	case 6:
		d := env.Today.Plus(r.PickInt(-1, 0, 1))
		c.Date = &d
	case 7:
		if r.Chance(1, 4) { // the edges of the representable range
			d := ref.Date{Y: 0, M: 1, D: 1}
			if r.Bool() {
				d = ref.Date{Y: 9999, M: 12, D: 31}
			}
			c.Date = &d
		}
	}
}

func genTimeChoice(r *core.Rand, c *MCmd, doc *ref.Doc, env MEnv) {
	switch r.Intn(6) {
	case 0, 1:
		t := gen.GenTime(r, -1440, 2879, true)
		if r.Chance(2, 3) {
			t = ref.TimeV{Off: r.Range(0, 1439), H12: r.Chance(1, 4)}
		}
		c.Time = &t
		c.TimeText = gen.SpellTime(r, t)
	case 2:
		c.Round = r.PickInt(5, 10, 12, 15, 20, 30, 60)
	}
}

func genSummaryArgs(r *core.Rand, c *MCmd) {
	switch r.Intn(8) {
	case 0, 1, 2:
		c.Summary = mSummary(r, true)
	case 3:
		c.Resume = true
	case 4:
		c.ResumeNth = r.PickInt(1, 2, 3, -1, -2, 5, -7)
	case 5:
		if r.Chance(1, 3) { // conflicting flags
			c.Summary = mSummary(r, false)
			c.Resume = true
		}
	}
}

var mTrackValues = []string{"8:00 - 8:00", "12:00-12:00", "1h", "30m", "-15m", "2h30m", "+45m", "0m", "8:00 - 9:00", "8:00-9:00", "13:00 - 14:30", "<23:00 - 1:00", "22:00 - 0:30>", "9:00am - 10:00am", "15:00 - ?", "7:00-???", "90m", "24:00 - 24:00"}
var mBadTrack = []string{"garbage", "1h60m", "8:00 - 7:00", " 1h", "25:00 - 26:00", "2020-01-01", "1x", "8:00 -", "- 1h", "?"}

// genCommand draws one mutating command for the current (model) state.
func genCommand(r *core.Rand, doc *ref.Doc, env MEnv, allowPause bool) MCmd {
	c := genCommand0(r, doc, env, allowPause)
	c.Warn = r.Bool()
	if len(c.Summary) > 0 && c.Summary[0] != "" && c.Kind != "create" && core.Hash64("summary-below", c.String())%15 == 0 {
		// `--summary $'\nFoo'`: the summary starts on the line below the value
		c.Summary = append([]string{""}, c.Summary...)
	}
	if c.Date != nil && core.Hash64("date-notation", c.String())%4 == 0 {
		c.DateSlash = true // the date argument typed with slashes
	}
	if r.Chance(1, 60) && len(c.Summary) > 0 {
		// a summary line that is a bare carriage return: accepted by the argument decoder, but written to the file it reads as a CRLF blank line
		c.Summary = append(append([]string{c.Summary[0]}, "\r"), c.Summary[1:]...)
		if len(c.Summary) == 2 {
			c.Summary = append(c.Summary, "after the blank")
		}
	}
	return c
}

func genCommand0(r *core.Rand, doc *ref.Doc, env MEnv, allowPause bool) MCmd {
	var c MCmd
	kinds := []string{"track", "track", "start", "start", "stop", "stop", "switch", "create"}
	if allowPause {
		kinds = append(kinds, "pause", "pause")
	}
	c.Kind = kinds[r.Intn(len(kinds))]
	switch c.Kind {
	case "track":
		genDateChoice(r, &c, doc, env, true)
		v := mTrackValues[r.Intn(len(mTrackValues))]
		if r.Chance(1, 8) {
			v = mBadTrack[r.Intn(len(mBadTrack))]
		}
		line := v
		if r.Chance(2, 3) {
			line += " " + mSummary(r, false)[0]
		}
		c.Entry = []string{line}
		if r.Chance(1, 5) {
			c.Entry = append(c.Entry, mSummary(r, true)...)
		}
	case "start":
		genDateChoice(r, &c, doc, env, r.Chance(1, 3))
		genTimeChoice(r, &c, doc, env)
		genSummaryArgs(r, &c)
	case "stop":
		if r.Chance(1, 2) {
			genDateChoice(r, &c, doc, env, false)
		}
		genTimeChoice(r, &c, doc, env)
		if r.Chance(1, 3) {
			c.Summary = mSummary(r, true)
		}
	case "switch":
		if r.Chance(1, 2) {
			genDateChoice(r, &c, doc, env, false)
		}
		genTimeChoice(r, &c, doc, env)
		genSummaryArgs(r, &c)
	case "create":
		genDateChoice(r, &c, doc, env, true)
		if r.Chance(1, 2) {
			v := r.PickInt(0, 60, 450, 480, -30, 3000)
			c.Should = &v
		}
		if r.Chance(1, 2) {
			c.RecSummary = mSummary(r, true)
			for i := range c.RecSummary {
				c.RecSummary[i] = strings.TrimLeft(c.RecSummary[i], " ")
			}
			if r.Chance(1, 10) {
				c.RecSummary[0] = " " + c.RecSummary[0] // invalid: leading blank
			}
		}
	case "pause":
		c.Extend = r.Chance(1, 4)
		c.NoTags = r.Chance(1, 4)
		if r.Chance(1, 2) && !(c.Extend && r.Chance(9, 10)) {
			c.Summary = mSummary(r, r.Chance(1, 3))
		}
		// scripted clock readings (seconds since the command started), one per loop iteration
		n := r.Range(1, 6)
		t := 0
		for i := 0; i < n; i++ {
			switch r.Intn(8) {
			case 0:
				t += r.Range(0, 59) // sub-minute step
			case 1:
				t += 60
			case 2:
				t += r.Range(61, 400)
			case 3:
				t += r.PickInt(3599, 3600, 3601, 7200, 86400) // forward jump (sleep)
			case 4:
				t -= r.Range(1, 500) // backward jump
			case 5:
				t += r.PickInt(59, 60, 61, 119, 120, 121)
			default:
				t += r.Range(1, 200)
			}
			c.Ticks = append(c.Ticks, t)
		}
	}
	return c
}

// genEnv draws the environment (clock near the documents' dates, optional configuration).
func genEnv(r *core.Rand, today ref.Date) MEnv {
	env := MEnv{Today: today, Minute: r.Intn(1440), Second: r.PickInt(0, 1, 30, 59), Cpus: r.PickInt(1, 1, 2, 3, 4, 8)}
	switch r.Intn(10) {
	case 0:
		env.Minute = r.PickInt(0, 1, 1438, 1439, 719, 720, 721)
	}
	if obs.IsDSTDate(today) && env.Minute%3 != 0 {
		env.Minute = obs.NearMidnight(env.Minute) // where "24 hours ago" and "yesterday" part ways
	}
	if r.Chance(1, 6) {
		env.CfgRounding = r.PickInt(5, 15, 30, 60)
	}
	if r.Chance(1, 5) {
		v := r.PickInt(480, 450, 60)
		env.CfgShould = &v
	}
	if r.Chance(1, 6) {
		env.CfgDateFormat = r.Pick("YYYY-MM-DD", "YYYY/MM/DD")
	}
	if r.Chance(1, 6) {
		env.CfgTimeConv = r.Pick("24h", "12h")
	}
	return env
}

// genLikelyCommand biases towards commands that succeed on the given state (closing / switching / pausing an existing open range).
func genLikelyCommand(r *core.Rand, doc *ref.Doc, env MEnv, allowPause bool) MCmd {
	var open []int
	for i := range doc.Recs {
		if doc.Recs[i].OpenIndex() >= 0 {
			open = append(open, i)
		}
	}
	if len(open) == 0 || r.Chance(1, 2) {
		return genCommand(r, doc, env, allowPause)
	}
	rec := &doc.Recs[open[r.Intn(len(open))]]
	start := rec.Entries[rec.OpenIndex()].Start.Off
	var c MCmd
	c.Kind = r.Pick("stop", "stop", "switch")
	isToday := rec.Date == env.Today
	isYesterday := rec.Date == env.Today.Plus(-1)
	if allowPause && (isToday || isYesterday) && r.Chance(1, 3) {
		c = genCommand(r, doc, env, true)
		for k := 0; k < 20 && c.Kind != "pause"; k++ {
			c = genCommand(r, doc, env, true)
		}
		if c.Kind == "pause" {
			return c
		}
		c = MCmd{Kind: "stop"}
	}
	d := rec.Date
	if !(isToday && r.Bool()) {
		c.Date = &d
	}
	if !(isToday && r.Chance(1, 3)) {
		end := start + r.PickInt(0, 1, 30, 61, 240, 600)
		if end > 2879 {
			end = 2879
		}
		t := ref.TimeV{Off: end, H12: r.Chance(1, 4)}
		c.Time = &t
		c.TimeText = gen.SpellTime(r, t)
	}
	if c.Kind == "stop" {
		if r.Chance(1, 2) {
			c.Summary = mSummary(r, true)
		}
	} else {
		genSummaryArgs(r, &c)
		if c.Summary != nil && c.Resume {
			c.Resume = false
		}
	}
	return c
}
