package props

import (
	"github.com/jotaen/klog/klog/app"
	"time"
	"fmt"
	"os"
	"strconv"
	"strings"

	"github.com/jotaen/klog/klog/app/cli"
	"github.com/jotaen/klog/klog/app/cli/util"
	"verifharness/core"
	"verifharness/obs"
	"verifharness/ref"
)

// C17 — clock-relative behaviour is right at every minute of the day.

var c17Days = []ref.Date{{Y: 2024, M: 5, D: 15}, {Y: 2023, M: 12, D: 31}, {Y: 2024, M: 4, D: 30}, {Y: 2024, M: 2, D: 28}, {Y: 2024, M: 2, D: 29}, {Y: 2024, M: 3, D: 1}, {Y: 2024, M: 3, D: 31}, {Y: 2024, M: 10, D: 27},
	{Y: 2024, M: 1, D: 1}, {Y: 2025, M: 1, D: 1}, {Y: 2025, M: 1, D: 2}} // (the last three: the first days of a leap year and of the year after one)
var c17Roundings = []struct {
	flag, cfg int
}{{0, 0}, {5, 0}, {10, 0}, {12, 0}, {15, 0}, {20, 0}, {30, 0}, {60, 0}, {0, 5}, {0, 10}, {0, 12}, {0, 15}, {0, 20}, {0, 30}, {0, 60}}
var c17Selections = []string{"default", "today", "yesterday", "tomorrow", "explicit-today", "explicit-other", "explicit-and-flag"}

const c17Layouts = 5

func init() {
	core.Register(&core.Prop{
		ID:    "C17",
		Level: "exploration",
		Rule: "grid: ALL 1440 minutes of the day (seconds 0 / 59 alternating) x days {ordinary, Dec 31, month end, Feb 28 of a leap year, Feb 29, Mar 1, Jan 1 of a leap year, Jan 1 and Jan 2 of the year after a leap year, and the two days on which European/US/Australian zones change to and from daylight-saving time; the virtual clock carries such zones} x rounding {none, 5, 10, 12, 15, 20, 30, 60 via --round and via default_rounding} x date selection {default, --today, --yesterday, --tomorrow, explicit --date today / other, an explicit --date together with a contradicting --yesterday/--tomorrow/--today} " +
			"x record layouts {open range today, only yesterday, both, none, today's record without open range} x 12h/24h files x commands {start, stop, switch} plus `total --now` and `json --now`. thorough = the full grid (exhaustive); quick = all minutes x all roundings x all selections on the ordinary day and Dec 31 with PRNG layouts, every 6th minute on the other days. " +
			"oracle: reference arithmetic - r = minute rounded to the nearest multiple (ties up), the time written into a record dated D must denote the instant r relative to today, i.e. offset r + 1440*(today-D), in the file's clock convention; it is representable iff -1440 <= offset <= 2879, otherwise the command must fail with an error message and leave the file byte-identical; " +
			"stop uses today's record if one exists, else yesterday's iff date and time were automatic; end >= start or error; --now adds now-start for today's and now+1440-start for yesterday's open ranges and refuses every other one. any panic is a violation. " +
			"non-trivial & distinct = grid cells (day, minute, rounding, selection, layout, command) in which a time was written or had to be refused as unrepresentable, by hash",
		Assumptions: []string{"how an error is worded is free; which of several equal spellings of a time is written (24:00 vs 0:00>) is free as long as the denoted offset and the notation class match"},
		Exhaustive:  func(tier string) bool { return tier == "thorough" },
		Planned: func(tier string, seed uint64) int64 {
			if tier == "thorough" {
				return 1440 * 8
			}
			return 1440*2 + 240*6
		},
		Run: runC17,
	})
}

func c17File(layout int, today ref.Date, h12 bool, indent string) string {
	tm := func(off int) string { return ref.FormatTime(ref.TimeV{Off: off, H12: h12}) }
	d := func(n int) string { return ref.FormatDate(today.Plus(n), true) }
	var sb strings.Builder
	sb.WriteString(d(-9) + "\n" + indent + tm(480) + " - " + tm(600) + " older\n" + indent + "1h\n\n")
	// (the open range is not always the record's last entry: something tracked later stands behind it)
	yOpen := d(-1) + "\n" + indent + tm(420) + " - " + tm(480) + " early\n" + indent + tm(1200) + " - ? night shift café #late\n" + indent + tm(600) + " - " + tm(615) + " tracked afterwards\n\n"
	yClosed := d(-1) + "\n" + indent + tm(420) + " - " + tm(480) + " early\n\n"
	tOpen := d(0) + "\nsummary of today\n" + indent + tm(5) + " - ? since midnight café #t\n" + indent + tm(1) + " - " + tm(3) + " tracked afterwards\n" + indent + "-2m\n"
	tClosed := d(0) + "\n" + indent + tm(5) + " - " + tm(6) + " done\n"
	switch layout {
	case 0:
		sb.WriteString(yClosed + tOpen)
	case 1:
		sb.WriteString(yOpen)
	case 2:
		sb.WriteString(yOpen + tOpen)
	case 3:
		// neither today nor yesterday
	case 4:
		sb.WriteString(yOpen + tClosed)
	case 5: // (--now only) an open range in tomorrow's record: not closeable at any instant of today
		sb.WriteString(tClosed + "\n" + d(1) + "\n" + indent + tm(480) + " - ? planned\n")
	case 6: // (--now only) an open range in the record of the day before yesterday: stale
		sb.WriteString(d(-2) + "\n" + indent + tm(1200) + " - ? forgotten\n\n" + tClosed)
	}
	return sb.String()
}

func runC17(e *core.Env) {
	type block struct {
		day, minute int
	}
	var blocks []block
	for di := range c17Days {
		for m := 0; m < 1440; m++ {
			if e.Quick() && di >= 2 && m%6 != int(e.Seed%6) {
				continue
			}
			blocks = append(blocks, block{di, m})
		}
	}
	file := e.Dir + "/c17.klg"
	for bi, b := range blocks {
		i := int64(bi)
		if !e.Mine(i) {
			continue
		}
		r := core.NewRand(e.Seed, 17, uint64(i))
		today := c17Days[b.day]
		e.Begin(i, []byte(fmt.Sprintf("day %s minute %02d:%02d", today, b.minute/60, b.minute%60)))
		n := int64(0)
		for _, rd := range c17Roundings {
			for _, sel := range c17Selections {
				layouts := []int{r.Intn(c17Layouts)}
				convs := []bool{r.Bool()}
				if !e.Quick() {
					layouts = []int{0, 1, 2, 3, 4}
					convs = []bool{false, true}
				}
				for _, lay := range layouts {
					for _, h12 := range convs {
						for _, kind := range []string{"start", "stop", "switch"} {
							n++
							c17Cell(e, r, file, today, b.minute, rd.flag, rd.cfg, sel, lay, h12, kind)
						}
					}
				}
			}
		}
		if b.minute == 1439 {
			// a clock that keeps running while the command runs: midnight falls between two readings
			for lay := 0; lay < c17Layouts; lay++ {
				for _, kind := range []string{"start", "stop", "switch"} {
					for _, rd := range []int{0, 5} {
						n++
						c17Ticking(e, file, today, lay, kind, rd)
					}
				}
			}
		}
		// --now evaluation at this minute, every layout
		for lay := 0; lay < c17Layouts+2; lay++ { // +2: the layouts whose open range lies in a future / a stale record
			n++
			c17Now(e, r, file, today, b.minute, lay)
		}
		e.Evals(n)
		e.Count("grid_cells", n)
		e.End(i)
	}
}

func c17Cell(e *core.Env, r *core.Rand, file string, today ref.Date, minute, roundFlag, roundCfg int, sel string, layout int, h12 bool, kind string) {
	indent := "    "
	if layout%2 == 1 {
		indent = "\t"
	}
	text := c17File(layout, today, h12, indent)
	rec := ref.Recognise(text)
	if rec.Verdict != ref.Conforming {
		panic("harness: c17 layout not conforming: " + rec.Rule)
	}
	env := MEnv{Today: today, Minute: minute, Second: map[bool]int{true: 59, false: 0}[minute%2 == 1], CfgRounding: roundCfg, Cpus: 1}
	cmd := MCmd{Kind: kind, Round: roundFlag}
	switch sel {
	case "today", "yesterday", "tomorrow":
		cmd.DateFlag = sel
	case "explicit-today":
		d := today
		cmd.Date = &d
		cmd.DateSlash = r.Bool() // both notations of the date argument denote the same day
	case "explicit-other":
		d := today.Plus(r.PickInt(-1, 1, -9, 3))
		cmd.Date = &d
		cmd.DateSlash = r.Bool()
	case "explicit-and-flag":
		// the day named twice, differently: the explicit date says which record; whatever record is written to, the time
		// must be the current instant relative to THAT record's date
		d := today.Plus(r.PickInt(0, -1, 1, 0, -1, 1, -9))
		cmd.Date = &d
		cmd.DateSlash = r.Bool()
		cmd.DateFlag = r.Pick("yesterday", "tomorrow", "today")
	}
	if kind == "start" && r.Chance(1, 4) {
		cmd.Summary = []string{"task"}
	}
	cellName := fmt.Sprintf("%s %02d:%02d round=%d/%d sel=%s layout=%d 12h=%v %s", today, minute/60, minute%60, roundFlag, roundCfg, sel, layout, h12, kind)
	// one cell in six: the file is in an 8-bit encoding (the é of the open range's summary is the single byte 0xE9, which is
	// not UTF-8); the command must do the same - the byte is mapped back before the result is compared with the model
	latin1 := core.Hash64("c17-latin1", cellName)%6 == 0
	disk := text
	if latin1 {
		disk = strings.ReplaceAll(text, "café", "caf\xe9")
		e.Count("cells_on_a_file_with_non_utf8_bytes", 1)
	}
	if err := os.WriteFile(file, []byte(disk), 0644); err != nil {
		panic(err)
	}
	out := applyModel(rec.Doc, cmd, env)
	res := runMutating(e, cmd, env, file, false)
	after := readFile(file)
	if latin1 {
		after = strings.ReplaceAll(after, "caf\xe9", "café")
	}
	w := map[string]any{"cell": cellName, "file_before": text, "file_after": after, "command": cmd.String(), "clock": env.Clock().Format("2006-01-02T15:04:05"), "default_rounding": roundCfg}
	if res.Panic != nil {
		e.Violation("command-panic: "+res.Panic.Site(), fmt.Sprintf("%s: `klog %s` panicked: %s", cellName, cmd.String(), res.Panic.Value), w)
		return
	}
	if out.Undecided != "" {
		return
	}
	rounding := roundFlag
	if rounding == 0 {
		rounding = roundCfg
	}
	rr := roundHalfUp(minute, rounding)
	if !out.OK {
		if res.OK {
			e.Violation("command-succeeds-where-it-must-fail: "+kind, fmt.Sprintf("%s: `klog %s` succeeded, but: %s", cellName, cmd.String(), out.Why), w)
			return
		}
		if after != text {
			e.Violation("failed-command-changes-file", fmt.Sprintf("%s: `klog %s` failed but changed the file", cellName, cmd.String()), w)
			return
		}
		if strings.TrimSpace(res.ErrText) == "" || strings.TrimSpace(res.ErrText) == ":" {
			e.Violation("failure-without-message", fmt.Sprintf("%s: `klog %s` failed without an error message", cellName, cmd.String()), w)
			return
		}
		if strings.Contains(out.Why, "not representable") {
			e.Count("cells_unrepresentable_time_refused", 1)
			e.Nontrivial(core.Hash64("c17", cellName))
		}
		e.Count("cells_refused", 1)
		return
	}
	if !res.OK {
		e.Violation("command-fails-where-it-must-succeed: "+kind, fmt.Sprintf("%s: `klog %s` failed (%s) although the required time (offset %d in the target record) is representable", cellName, cmd.String(), trunc(res.ErrText, 120), out.TimeOff), w)
		return
	}
	got, perr := readBack(after)
	if perr != "" {
		e.Violation("result-invalid", fmt.Sprintf("%s: file does not parse afterwards: %s", cellName, perr), w)
		return
	}
	if diff := compareWithModel(out, got, cmd); diff != "" {
		e.Violation("wrong-time-or-target: "+kind, fmt.Sprintf("%s: `klog %s` (rounded minute %d): %s", cellName, cmd.String(), rr, diff), w)
		return
	}
	// independent restatement: the written time, relative to its record's date, denotes the rounded current instant
	grec := &got.Recs[out.Rec]
	var written ref.TimeV
	switch kind {
	case "start":
		written = grec.Entries[out.Ent].Start
	case "stop":
		written = grec.Entries[out.Ent].End
	case "switch":
		written = grec.Entries[out.Ent].End
		if st := grec.Entries[len(grec.Entries)-1].Start; st.Off != written.Off {
			e.Violation("switch-times-differ", fmt.Sprintf("%s: switch closed at offset %d but started the new range at %d", cellName, written.Off, st.Off), w)
			return
		}
	}
	instant := (grec.Date.Days()-today.Days())*1440 + written.Off
	if instant != rr {
		e.Violation("written-time-is-not-the-rounded-current-time: "+kind, fmt.Sprintf("%s: `klog %s` wrote %s into the record of %s, which denotes minute %d of today; the clock rounded to %d is minute %d", cellName, cmd.String(), ref.FormatTime(written), grec.Date, instant, rounding, rr), w)
		return
	}
	// notation class: the file's convention (all its times are h12 or all 24h), nothing configured, no explicit time
	if written.H12 != h12 {
		e.Violation("written-time-notation", fmt.Sprintf("%s: time written as %s although the file uses 12h=%v", cellName, ref.FormatTime(written), h12), w)
		return
	}
	e.Count("cells_time_written", 1)
	e.Count("cells_time_written_"+kind, 1)
	if written.Shift() != 0 {
		e.Count("cells_shifted_time_written", 1)
	}
	e.Nontrivial(core.Hash64("c17", cellName))
	if e.WantSample() && written.Shift() != 0 {
		e.Sample(w)
	}
}

// c17Ticking runs a command under a clock that advances by one second with every reading, starting at 23:59:59: the
// second reading already belongs to the next day. Whatever the command does must be what the model prescribes for ONE
// of the instants it read - a date taken from one reading and a time from another is neither.
func c17Ticking(e *core.Env, file string, today ref.Date, layout int, kind string, round int) {
	text := c17File(layout, today, false, "    ")
	rec := ref.Recognise(text)
	if err := os.WriteFile(file, []byte(text), 0644); err != nil {
		panic(err)
	}
	cmd := MCmd{Kind: kind, Round: round}
	envA := MEnv{Today: today, Minute: 1439, Second: 59, Cpus: 1}
	envB := MEnv{Today: today.Plus(1), Minute: 0, Second: 0, Cpus: 1}
	outA, outB := applyModel(rec.Doc, cmd, envA), applyModel(rec.Doc, cmd, envB)
	if outA.Undecided != "" || outB.Undecided != "" {
		return
	}
	c, derr := cmd.build(file)
	if derr != "" {
		return
	}
	base := time.Date(today.Y, time.Month(today.M), today.D, 23, 59, 59, 0, time.UTC)
	ctx, _, err := obs.NewCtx(obs.CtxOpts{ConfigDir: e.Dir + "/cfg", Cpus: 1, Theme: "no_colour", Clock: base})
	if err != nil {
		panic("harness: " + err.Error())
	}
	ctx.OnNow = func() {
		if ctx.NowReads > 1 {
			ctx.Clock = ctx.Clock.Add(time.Second)
		}
	}
	var aerr app.Error
	pi := core.Guard(func() { aerr = c.Run(ctx) })
	after := readFile(file)
	w := map[string]any{"file_before": text, "file_after": after, "command": cmd.String(), "clock": "23:59:59 at the first reading, one second later at every further reading", "clock_readings": ctx.NowReads}
	if pi != nil {
		e.Violation("command-panic: "+pi.Site(), fmt.Sprintf("running clock across midnight: `klog %s` panicked: %s", cmd.String(), pi.Value), w)
		return
	}
	e.Count("running_clock_cells", 1)
	if aerr != nil {
		if outA.OK && outB.OK {
			e.Violation("running-clock-across-midnight: "+kind, fmt.Sprintf("`klog %s` failed (%s) although it must succeed both at 23:59:59 and at 0:00:00", cmd.String(), trunc(aerr.Error()+": "+aerr.Details(), 160)), w)
		} else if after != text {
			e.Violation("failed-command-changes-file", "running clock across midnight: the command failed but changed the file", w)
		}
		return
	}
	got, perr := readBack(after)
	if perr != "" {
		e.Violation("result-invalid", "running clock across midnight: file does not parse afterwards: "+perr, w)
		return
	}
	var diffs []string
	for _, o := range []Outcome{outA, outB} {
		if !o.OK {
			continue
		}
		d := compareWithModel(o, got, cmd)
		if d == "" {
			return
		}
		diffs = append(diffs, d)
	}
	e.Violation("running-clock-across-midnight: "+kind, fmt.Sprintf("`klog %s` with midnight between two clock readings wrote a result that is right for neither instant (23:59:59 of %s: %s; 0:00:00 of the next day: %s)",
		cmd.String(), today, map[bool]string{true: "differs", false: "must fail"}[outA.OK], map[bool]string{true: "differs", false: "must fail"}[outB.OK])+"\n"+strings.Join(diffs, "\n"), w)
}

func c17Now(e *core.Env, r *core.Rand, file string, today ref.Date, minute, layout int) {
	text := c17File(layout, today, false, "    ")
	rec := ref.Recognise(text)
	if err := os.WriteFile(file, []byte(text), 0644); err != nil {
		panic(err)
	}
	clock := MEnv{Today: today, Minute: minute, Second: 30}.Clock()
	w := map[string]any{"file": text, "clock": clock.Format("2006-01-02T15:04:05"), "layout": layout}
	// `total --now --today`: the filter selects first, --now applies to what is selected - an open range that cannot be
	// closed in a record the filter leaves out is no obstacle
	{
		sel := &ref.Doc{}
		for i := range rec.Doc.Recs {
			if rec.Doc.Recs[i].Date == today {
				sel.Recs = append(sel.Recs, rec.Doc.Recs[i])
			}
		}
		fextra, _, fok := nowClosing(sel, today, minute)
		fres := runRO(e, &cli.Total{NowArgs: util.NowArgs{Now: true}, FilterArgs: util.FilterArgs{Today: true}, DecimalArgs: util.DecimalArgs{Decimal: true}, WarnArgs: util.WarnArgs{NoWarn: true},
			NoStyleArgs: util.NoStyleArgs{NoStyle: true}, InputFilesArgs: util.InputFilesArgs{File: files(file)}}, 1, "", "", clock)
		switch {
		case fres.Panic != nil:
			e.Violation("now-panic: "+fres.Panic.Site(), fres.Panic.Value, w)
			return
		case !fok && fres.Err == nil:
			e.Violation("now-uncloseable-range-not-refused", fmt.Sprintf("`klog total --now --today` at %s must refuse\n%s", w["clock"], fres.Out), w)
			return
		case fok && fres.Err != nil:
			e.Violation("now-fails", fmt.Sprintf("`klog total --now --today` at %s failed (%s) although every open range among today's records can be closed", w["clock"], fres.Err.Details()), w)
			return
		case fok:
			fwant := 0
			for i := range sel.Recs {
				fwant += sel.Recs[i].Total() + fextra[i]
			}
			if to, perr := parseTotalOutput(fres.Out); len(sel.Recs) > 0 && (perr != nil || to.Total != strconv.Itoa(fwant)) {
				e.Violation("now-total-wrong", fmt.Sprintf("`klog total --now --today` at %s = %s, expected %d", w["clock"], to.Total, fwant), w)
				return
			}
			e.Count("now_cells_with_filter_evaluated", 1)
		}
	}
	// `total --now` behind a filter that selects single entries (--tag on some entries, --entry-type): the filter selects first,
	// what is left of each record is evaluated - an open range the filter has left out is neither closed nor an obstacle
	{
		q := []query{
			{Tags: []ref.Tag{{Name: "late"}}, TagArgs: []string{"late"}}, {Tags: []ref.Tag{{Name: "t"}}, TagArgs: []string{"#t"}},
			{EntryType: "range"}, {EntryType: "open-range"}, {EntryType: "duration"},
		}[r.Intn(5)]
		fa, _, _ := buildFilterArgs(q)
		selRecs, _ := q.apply(rec.Doc, today)
		sel := &ref.Doc{}
		for _, er := range selRecs {
			c := *er.Rec
			c.Entries = nil
			for _, k := range er.Entries {
				c.Entries = append(c.Entries, er.Rec.Entries[k])
			}
			sel.Recs = append(sel.Recs, c)
		}
		fextra, _, fok := nowClosing(sel, today, minute)
		fres := runRO(e, &cli.Total{NowArgs: util.NowArgs{Now: true}, FilterArgs: fa, DecimalArgs: util.DecimalArgs{Decimal: true}, WarnArgs: util.WarnArgs{NoWarn: true},
			NoStyleArgs: util.NoStyleArgs{NoStyle: true}, InputFilesArgs: util.InputFilesArgs{File: files(file)}}, 1, "", "", clock)
		how := "`klog total --now " + q.String() + "`"
		switch {
		case fres.Panic != nil:
			e.Violation("now-panic: "+fres.Panic.Site(), how+": "+fres.Panic.Value, w)
			return
		case !fok && fres.Err == nil:
			e.Violation("now-uncloseable-range-not-refused", fmt.Sprintf("%s at %s must refuse\n%s", how, w["clock"], fres.Out), w)
			return
		case fok && fres.Err != nil:
			e.Violation("now-fails", fmt.Sprintf("%s at %s failed (%s) although every open range among the selected entries can be closed", how, w["clock"], fres.Err.Details()), w)
			return
		case fok:
			fwant := 0
			for i := range sel.Recs {
				fwant += sel.Recs[i].Total() + fextra[i]
			}
			if to, perr := parseTotalOutput(fres.Out); len(sel.Recs) > 0 && (perr != nil || to.Total != strconv.Itoa(fwant)) {
				e.Violation("now-total-wrong", fmt.Sprintf("%s at %s = %s, expected %d", how, w["clock"], to.Total, fwant), w)
				return
			}
			e.Count("now_cells_with_entry_filter_evaluated", 1)
		}
	}
	extra, _, ok := nowClosing(rec.Doc, today, minute)
	res := runRO(e, &cli.Total{NowArgs: util.NowArgs{Now: true}, DecimalArgs: util.DecimalArgs{Decimal: true}, WarnArgs: util.WarnArgs{NoWarn: true}, NoStyleArgs: util.NoStyleArgs{NoStyle: true},
		InputFilesArgs: util.InputFilesArgs{File: files(file)}}, 1, "", "", clock)
	if res.Panic != nil {
		e.Violation("now-panic: "+res.Panic.Site(), res.Panic.Value, w)
		return
	}
	if !ok {
		if res.Err == nil {
			e.Violation("now-uncloseable-range-not-refused", fmt.Sprintf("`klog total --now` at %s must refuse: an open range cannot be closed at this instant\n%s", w["clock"], res.Out), w)
		}
		e.Count("now_cells_refused", 1)
		return
	}
	if res.Err != nil {
		e.Violation("now-fails", fmt.Sprintf("`klog total --now` at %s failed: %s", w["clock"], res.Err.Details()), w)
		return
	}
	want := 0
	for i := range rec.Doc.Recs {
		want += rec.Doc.Recs[i].Total() + extra[i]
	}
	to, perr := parseTotalOutput(res.Out)
	if perr != nil || to.Total != strconv.Itoa(want) {
		e.Violation("now-total-wrong", fmt.Sprintf("`klog total --now` at %s = %s, expected %d (each open range counts from its start to now)", w["clock"], to.Total, want), w)
		return
	}
	if minute%7 == 0 {
		jres := runRO(e, &cli.Json{NowArgs: util.NowArgs{Now: true}, InputFilesArgs: util.InputFilesArgs{File: files(file)}}, 1, "", "", clock)
		if jres.Panic != nil || jres.Err != nil {
			e.Violation("now-fails", "klog json --now failed", w)
			return
		}
		recs, _, _, _, jerr := decodeJSONEnvelope(jres.Out)
		if jerr != nil {
			e.Violation("now-json-malformed", jerr.Error(), w)
			return
		}
		wantRecs := make([]expectedRec, len(rec.Doc.Recs))
		for i := range rec.Doc.Recs {
			wantRecs[i] = expectedRec{Rec: &rec.Doc.Recs[i], Extra: extra[i], ClosedEnd: -1}
			if oi := rec.Doc.Recs[i].OpenIndex(); oi >= 0 {
				wantRecs[i].ClosedEnd = rec.Doc.Recs[i].Entries[oi].Start.Off + extra[i]
			}
		}
		if diff := compareJSONRecords(recs, wantRecs, false, true); diff != "" {
			e.Violation("now-json-wrong", "klog json --now: "+diff, w)
			return
		}
	}
	e.Count("now_cells_evaluated", 1)
}
