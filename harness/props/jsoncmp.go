package props

import (
	"fmt"
	"sort"
	"strings"

	"verifharness/obs"
	"verifharness/ref"
)

// expectedRec is what the JSON view of one record must show.
type expectedRec struct {
	Rec   *ref.Rec
	Extra int // minutes added by --now (open range evaluated as closed)
	// ClosedEnd: if >= 0, the open range was closed at this offset and must appear as a range
	ClosedEnd int
	// EntryFilter: if non-nil, only these entry indices survive (filters)
	Entries []int
}

func sortedCanonicalTags(lines []string) ([]string, bool) {
	tags, amb := ref.ScanSummaryTags(lines)
	out := make([]string, 0, len(tags))
	for _, t := range tags {
		out = append(out, ref.CanonicalTag(t))
	}
	sort.Strings(out)
	return out, amb
}

func jsonStrings(v any) ([]string, bool) {
	a, ok := v.([]any)
	if !ok {
		return nil, false
	}
	out := make([]string, 0, len(a))
	for _, x := range a {
		s, ok := x.(string)
		if !ok {
			return nil, false
		}
		out = append(out, s)
	}
	return out, true
}

// compareJSONRecords checks the `records` array of `klog json` against the expectation.
// full=false restricts the comparison to dates and minute values (C02); full=true checks every field (C20).
func compareJSONRecords(records []any, want []expectedRec, full bool, validUTF8 bool) string {
	if len(records) != len(want) {
		return fmt.Sprintf("json shows %d records, expected %d", len(records), len(want))
	}
	for i, raw := range records {
		o, ok := raw.(map[string]any)
		if !ok {
			return fmt.Sprintf("record #%d is not an object", i)
		}
		w := want[i]
		r := w.Rec
		pre := fmt.Sprintf("record #%d (%s): ", i, ref.FormatDate(r.Date, r.Dashes))
		if s, _ := obs.JStr(o, "date"); s != ref.FormatDate(r.Date, r.Dashes) {
			return pre + fmt.Sprintf("date %q", s)
		}
		idxs := w.Entries
		if idxs == nil {
			for k := range r.Entries {
				idxs = append(idxs, k)
			}
		}
		total := 0
		for _, k := range idxs {
			total += r.Entries[k].Minutes()
		}
		total += w.Extra
		tm, ok1 := obs.JInt(o, "total_mins")
		sm, ok2 := obs.JInt(o, "should_total_mins")
		dm, ok3 := obs.JInt(o, "diff_mins")
		if !ok1 || !ok2 || !ok3 {
			return pre + "total_mins/should_total_mins/diff_mins missing or not integers"
		}
		if tm != total {
			return pre + fmt.Sprintf("total_mins=%d, expected %d", tm, total)
		}
		if sm != r.ShouldMins() {
			return pre + fmt.Sprintf("should_total_mins=%d, expected %d", sm, r.ShouldMins())
		}
		if dm != total-r.ShouldMins() {
			return pre + fmt.Sprintf("diff_mins=%d, expected total-should=%d", dm, total-r.ShouldMins())
		}
		ents, ok := obs.JArr(o, "entries")
		if !ok {
			return pre + "entries is not an array"
		}
		if len(ents) != len(idxs) {
			return pre + fmt.Sprintf("%d entries, expected %d", len(ents), len(idxs))
		}
		sumEntries := 0
		for j, rawE := range ents {
			eo, ok := rawE.(map[string]any)
			if !ok {
				return pre + fmt.Sprintf("entry #%d is not an object", j)
			}
			en := r.Entries[idxs[j]]
			epre := pre + fmt.Sprintf("entry #%d: ", j)
			etm, ok := obs.JInt(eo, "total_mins")
			if !ok {
				return epre + "total_mins missing"
			}
			sumEntries += etm
			kind := en.Kind
			mins := en.Minutes()
			end := en.End
			if kind == ref.KOpen && w.ClosedEnd >= 0 && w.Extra >= 0 && w.ClosedEnd != -1 {
				kind = ref.KRange
				mins = w.ClosedEnd - en.Start.Off
				end = ref.TimeV{Off: w.ClosedEnd}
			}
			if etm != mins {
				return epre + fmt.Sprintf("total_mins=%d, expected %d", etm, mins)
			}
			typ, _ := obs.JStr(eo, "type")
			if typ != kind.String() {
				return epre + fmt.Sprintf("type %q, expected %q", typ, kind.String())
			}
			if kind == ref.KRange || kind == ref.KOpen {
				stm, ok := obs.JInt(eo, "start_mins")
				if !ok || stm != en.Start.Off {
					return epre + fmt.Sprintf("start_mins=%d, expected %d", stm, en.Start.Off)
				}
				if kind == ref.KRange {
					enm, ok := obs.JInt(eo, "end_mins")
					if !ok || enm != end.Off {
						return epre + fmt.Sprintf("end_mins=%d, expected %d", enm, end.Off)
					}
					if etm != enm-stm {
						return epre + fmt.Sprintf("range total_mins=%d differs from end_mins-start_mins=%d", etm, enm-stm)
					}
				} else if _, has := eo["end_mins"]; has {
					return epre + "open range with end_mins"
				}
			}
			if !full {
				continue
			}
			if s, _ := obs.JStr(eo, "total"); s != ref.FormatPlainDuration(mins) {
				return epre + fmt.Sprintf("total %q, expected %q", s, ref.FormatPlainDuration(mins))
			}
			if kind == ref.KRange || kind == ref.KOpen {
				if s, _ := obs.JStr(eo, "start"); s != ref.FormatTime(en.Start) {
					return epre + fmt.Sprintf("start %q, expected %q", s, ref.FormatTime(en.Start))
				}
				if kind == ref.KRange {
					wantEnd := ref.FormatTime(end)
					if en.Kind == ref.KOpen {
						wantEnd = "" // closed by --now: notation of the end is not specified
					}
					if s, _ := obs.JStr(eo, "end"); wantEnd != "" && s != wantEnd {
						return epre + fmt.Sprintf("end %q, expected %q", s, wantEnd)
					}
				}
			}
			if validUTF8 {
				if s, _ := obs.JStr(eo, "summary"); s != strings.Join(en.Summary, "\n") {
					return epre + fmt.Sprintf("summary %q, expected %q", s, strings.Join(en.Summary, "\n"))
				}
				wantTags, amb := sortedCanonicalTags(en.Summary)
				gotTags, ok := jsonStrings(eo["tags"])
				if !ok {
					return epre + "tags is not an array of strings"
				}
				if !amb && strings.Join(gotTags, "\x00") != strings.Join(wantTags, "\x00") {
					return epre + fmt.Sprintf("tags %q, expected %q", gotTags, wantTags)
				}
			}
		}
		if tm != sumEntries {
			return pre + fmt.Sprintf("total_mins=%d is not the sum of the entries' total_mins=%d", tm, sumEntries)
		}
		if !full {
			continue
		}
		if s, _ := obs.JStr(o, "total"); s != ref.FormatPlainDuration(total) {
			return pre + fmt.Sprintf("total %q, expected %q", s, ref.FormatPlainDuration(total))
		}
		if s, _ := obs.JStr(o, "diff"); s != ref.FormatSignedDuration(total-r.ShouldMins()) {
			return pre + fmt.Sprintf("diff %q, expected %q", s, ref.FormatSignedDuration(total-r.ShouldMins()))
		}
		st, _ := obs.JStr(o, "should_total")
		wantSt := ref.FormatPlainDuration(r.ShouldMins())
		if st != wantSt+"!" && !(r.ShouldMins() == 0 && st == wantSt) {
			return pre + fmt.Sprintf("should_total %q, expected %q", st, wantSt+"!")
		}
		if validUTF8 {
			if s, _ := obs.JStr(o, "summary"); s != strings.Join(r.Summary, "\n") {
				return pre + fmt.Sprintf("summary %q, expected %q", s, strings.Join(r.Summary, "\n"))
			}
			wantTags, amb := sortedCanonicalTags(r.Summary)
			gotTags, ok := jsonStrings(o["tags"])
			if !ok {
				return pre + "tags is not an array of strings"
			}
			if !amb && strings.Join(gotTags, "\x00") != strings.Join(wantTags, "\x00") {
				return pre + fmt.Sprintf("tags %q, expected %q", gotTags, wantTags)
			}
		}
	}
	return ""
}

// decodeJSONEnvelope decodes klog json output and returns (records, errors) arrays (nil when null).
func decodeJSONEnvelope(out string) (records []any, errs []any, recordsNull, errorsNull bool, err error) {
	v, derr := obs.DecodeJSON([]byte(out))
	if derr != nil {
		return nil, nil, false, false, derr
	}
	top, ok := v.(map[string]any)
	if !ok {
		return nil, nil, false, false, fmt.Errorf("top level is not an object")
	}
	rv, hasR := top["records"]
	ev, hasE := top["errors"]
	if !hasR || !hasE {
		return nil, nil, false, false, fmt.Errorf("`records` or `errors` missing")
	}
	recordsNull, errorsNull = rv == nil, ev == nil
	if !recordsNull {
		a, ok := rv.([]any)
		if !ok {
			return nil, nil, false, false, fmt.Errorf("`records` is neither null nor an array")
		}
		records = a
	}
	if !errorsNull {
		a, ok := ev.([]any)
		if !ok {
			return nil, nil, false, false, fmt.Errorf("`errors` is neither null nor an array")
		}
		errs = a
	}
	return
}
