package props

import (
	"strings"
	"strconv"
	"time"
	"fmt"
	"os"
	"path/filepath"
	"reflect"

	"github.com/jotaen/klog/klog/parser"
	"verifharness/core"
	"verifharness/gen"
	"verifharness/obs"
	"verifharness/ref"
)

// parseTuple is everything observable from one Parse call.
type parseTuple struct {
	Doc    *ref.Doc
	Blocks [][]obs.BlockLine
	Errs   []obs.ErrInfo
	NRec   int
	NBlock int
}

func parseWith(p parser.Parser, text string) (t parseTuple, pi *core.PanicInfo) {
	pi = core.Guard(func() {
		rs, bs, errs := p.Parse(text)
		t.NRec, t.NBlock = len(rs), len(bs)
		if errs != nil {
			t.Errs = obs.ErrorsOf(errs)
		}
		if rs != nil {
			t.Doc = obs.DocOf(rs)
		}
		if bs != nil {
			t.Blocks = obs.BlocksOf(bs)
		}
	})
	return
}

// diffTuples explains the first difference between two parse results ("" if equal).
func diffTuples(a, b parseTuple) string {
	if (a.Doc == nil) != (b.Doc == nil) {
		return fmt.Sprintf("one result has records, the other has none (records %d vs %d, errors %d vs %d)", a.NRec, b.NRec, len(a.Errs), len(b.Errs))
	}
	if a.Doc != nil {
		if d := ref.DiffDocs(a.Doc, b.Doc, true); d != "" {
			return "records differ: " + d
		}
	}
	if len(a.Blocks) != len(b.Blocks) {
		return fmt.Sprintf("number of blocks differs: %d vs %d", len(a.Blocks), len(b.Blocks))
	}
	for i := range a.Blocks {
		if !reflect.DeepEqual(a.Blocks[i], b.Blocks[i]) {
			return fmt.Sprintf("block #%d differs: %+v vs %+v", i, a.Blocks[i], b.Blocks[i])
		}
	}
	if len(a.Errs) != len(b.Errs) {
		return fmt.Sprintf("number of errors differs: %d vs %d", len(a.Errs), len(b.Errs))
	}
	for i := range a.Errs {
		if a.Errs[i] != b.Errs[i] {
			return fmt.Sprintf("error #%d differs: %+v vs %+v", i, a.Errs[i], b.Errs[i])
		}
	}
	return ""
}

func writeFile(dir, name, content string) string {
	p := filepath.Join(dir, name)
	if err := os.WriteFile(p, []byte(content), 0644); err != nil {
		panic("harness: cannot write " + p + ": " + err.Error())
	}
	return p
}

func readFile(p string) string {
	b, err := os.ReadFile(p)
	if err != nil {
		return "<unreadable: " + err.Error() + ">"
	}
	return string(b)
}

func trunc(s string, n int) string {
	if len(s) > n {
		return s[:n] + "…"
	}
	return s
}

type timeT = time.Time

// splitAtRecord writes the document as two files, cut in front of a record's headline; evaluating both files in
// order must give what evaluating the single file gives. ok=false if the document has fewer than two records.
func splitAtRecord(e *core.Env, r *core.Rand, d *gen.Out, base string) (paths []string, ok bool) {
	ls := ref.SplitLines(d.Text)
	if len(d.Doc.Recs) < 2 || len(ls) != len(d.Lines) {
		return nil, false
	}
	k := 1 + r.Intn(len(d.Doc.Recs)-1)
	off := 0
	for i, l := range ls {
		if d.Lines[i].Kind == gen.LHeadline && d.Lines[i].Rec == k {
			break
		}
		off += len(l.Text) + len(l.Ending)
	}
	if off <= 0 || off >= len(d.Text) {
		return nil, false
	}
	// the two files share their base name (`2023/times.klg 2024/times.klg`): files are told apart by their path
	da, db := filepath.Join(e.Dir, "part 1"), filepath.Join(e.Dir, "part 2")
	_ = os.MkdirAll(da, 0755)
	_ = os.MkdirAll(db, 0755)
	return []string{writeFile(da, base+".klg", d.Text[:off]), writeFile(db, base+".klg", d.Text[off:])}, true
}

// stdinJSON pipes the text into the real binary (`klog json` reading its standard input): the whole program from the
// pipe to the parser, including the code that collects the input. ok=false: the observation could not be made.
func stdinJSON(e *core.Env, text string) (records []any, nerr int, recordsNull bool, crash string, ok bool) {
	if e.KlogBin == "" {
		return nil, 0, false, "", false
	}
	cfg := e.Dir + "/bincfg"
	if len(text)%2 == 0 {
		cfg = cfgWithDefaultBookmark(e) // piped text takes precedence over a default bookmark
	}
	b := obs.RunBin(obs.BinEnv{Bin: e.KlogBin, ConfigDir: cfg, Stdin: []byte(text)}, "json")
	if b.Err != nil {
		return nil, 0, false, "", false
	}
	if obs.LooksLikeGoCrash(b.Stdout + b.Stderr) {
		return nil, 0, false, trunc(b.Stderr+b.Stdout, 600), true
	}
	recs, errsArr, rnull, _, jerr := decodeJSONEnvelope(b.Stdout)
	if jerr != nil {
		return nil, 0, false, "undecodable output: " + trunc(b.Stdout, 300), true
	}
	return recs, len(errsArr), rnull, "", true
}

// withAppended returns a copy of the generated document with the records of extra (a conforming text, recognised by the
// reference) appended after a blank line: text and model stay in step. Line-level layout info is dropped.
func withAppended(d *gen.Out, extra string) (*gen.Out, bool) {
	rec := ref.Recognise(extra)
	if rec.Verdict != ref.Conforming {
		return d, false
	}
	text := d.Text
	if text != "" && !strings.HasSuffix(text, "\n") {
		text += "\n"
	}
	if text != "" {
		text += "\n"
	}
	doc := d.Doc.Clone()
	doc.Recs = append(doc.Recs, rec.Doc.Recs...)
	feat := map[string]bool{}
	for k, v := range d.Feat {
		feat[k] = v
	}
	delete(feat, "no_final_newline")
	return &gen.Out{Text: text + extra, Doc: doc, Feat: feat}, true
}

// manyRecordsText: n short records on consecutive days (every 7th without entries, some with a summary).
func manyRecordsText(r *core.Rand, n int) string {
	var sb strings.Builder
	day := ref.DaysFromCivil(2031, 1, 1)
	for i := 0; i < n; i++ {
		if i > 0 {
			sb.WriteString("\n")
		}
		sb.WriteString(ref.FormatDate(ref.DateFromDays(day+i), true) + "\n")
		if i%5 == 0 {
			sb.WriteString("note " + strconv.Itoa(i) + "\n")
		}
		if i%7 != 3 {
			sb.WriteString("    " + strconv.Itoa(1+i%9) + "h\n")
		}
	}
	return sb.String()
}

// longLineText: one record whose summary line (record summary or entry summary) is n bytes long.
func longLineText(r *core.Rand, n int) string {
	long := strings.Repeat("lorem ipsum ", n/12+1)[:n]
	if r.Bool() {
		return "2032-02-02\n" + long + "\n    1h\n"
	}
	return "2032-02-02\n    1h " + long + "\n    2h\n"
}

var bmCfgOnce = map[string]string{}

// cfgWithDefaultBookmark returns a config folder in which a default bookmark points to a decoy file (created once per
// process through the real `klog bookmarks set`). Text piped into klog must win over that bookmark.
func cfgWithDefaultBookmark(e *core.Env) string {
	if d, ok := bmCfgOnce[e.Dir]; ok {
		return d
	}
	dir := e.Dir + "/bincfg-bm"
	_ = os.MkdirAll(dir, 0755)
	decoy := writeFile(e.Dir, "decoy-default-bookmark.klg", "1999-01-01 (1h!)\n    7h7m decoy\n")
	b := obs.RunBin(obs.BinEnv{Bin: e.KlogBin, ConfigDir: dir}, "bookmarks", "set", decoy)
	if b.Err != nil || b.Code != 0 {
		dir = e.Dir + "/bincfg" // could not be set up: fall back to the plain folder
	}
	bmCfgOnce[e.Dir] = dir
	return dir
}

// straddleText builds a conforming text in which multi-byte characters (2, 3 and 4 bytes long) sit across the byte
// offsets that buffered readers and chunked algorithms like to cut at (4 KiB, 8 KiB, 32 KiB, 64 KiB, 128 KiB, 1 MiB - up to
// maxBoundary): a reader that validates, decodes or splits chunk by chunk sees half a character on either side.
func straddleText(r *core.Rand, maxBoundary int) string {
	var sb strings.Builder
	day := ref.DaysFromCivil(2034, 1, 1)
	n := 0
	rec := func(summary string) {
		if n > 0 {
			sb.WriteString("\n")
		}
		sb.WriteString(ref.FormatDate(ref.DateFromDays(day+n), true) + "\n")
		if summary != "" {
			sb.WriteString(summary + "\n")
		}
		sb.WriteString("    " + strconv.Itoa(1+n%9) + "h café\n")
		n++
	}
	chars := []string{"ä", "€", "😀", "é", "日"}
	for _, b := range []int{4096, 8192, 32768, 65536, 131072, 1048576} {
		if b > maxBoundary {
			break
		}
		for sb.Len() < b-400 {
			rec("")
		}
		ch := chars[r.Intn(len(chars))]
		// headline of the straddling record: "\n" + 10 bytes + "\n"; the summary line is filled so that the character starts k bytes before b
		k := 1 + r.Intn(len(ch)-1)
		start := sb.Len() + 1 + 10 + 1
		fill := b - k - start
		if fill < 1 {
			continue
		}
		rec(strings.Repeat("x", fill) + ch + " straddles " + strconv.Itoa(b))
	}
	rec("")
	return sb.String()
}

// fileJSON gives the text to the real binary as a file argument (`klog json FILE`): the path through klog's own file reader.
func fileJSON(e *core.Env, text string) (records []any, nerr int, recordsNull bool, crash string, ok bool) {
	if e.KlogBin == "" {
		return nil, 0, false, "", false
	}
	f := writeFile(e.Dir, "as-file-argument.klg", text)
	b := obs.RunBin(obs.BinEnv{Bin: e.KlogBin, ConfigDir: e.Dir + "/bincfg"}, "json", f)
	if b.Err != nil {
		return nil, 0, false, "", false
	}
	if obs.LooksLikeGoCrash(b.Stdout + b.Stderr) {
		return nil, 0, false, trunc(b.Stderr+b.Stdout, 600), true
	}
	recs, errsArr, rnull, _, jerr := decodeJSONEnvelope(b.Stdout)
	if jerr != nil {
		return nil, 0, false, "undecodable output: " + trunc(b.Stdout, 300), true
	}
	return recs, len(errsArr), rnull, "", true
}

// plainText renders a document in the plainest style there is: dash dates, one blank between records, four spaces,
// LF, " - " in ranges, a single placeholder. The values (and their clock convention) and all summary text stay.
func plainText(doc *ref.Doc) string {
	var sb strings.Builder
	for i := range doc.Recs {
		rc := &doc.Recs[i]
		if i > 0 {
			sb.WriteString("\n")
		}
		sb.WriteString(ref.FormatDate(rc.Date, true))
		if rc.Should != nil {
			sb.WriteString(" (" + ref.FormatPlainDuration(*rc.Should) + "!)")
		}
		sb.WriteString("\n")
		for _, l := range rc.Summary {
			sb.WriteString(l + "\n")
		}
		for k := range rc.Entries {
			en := rc.Entries[k]
			en.DashSpaces, en.ExtraQ = true, 0
			en.Start.H12, en.End.H12 = false, false // the 24-hour clock is the plain notation
			line := "    " + en.ValueText()
			if len(en.Summary) > 0 && en.Summary[0] != "" {
				line += " " + en.Summary[0]
			}
			sb.WriteString(line + "\n")
			for j := 1; j < len(en.Summary); j++ {
				sb.WriteString("        " + en.Summary[j] + "\n")
			}
		}
	}
	return sb.String()
}
