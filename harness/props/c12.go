package props

import (
	"fmt"
	"strconv"
	"strings"

	"github.com/jotaen/klog/klog/app/cli"
	"github.com/jotaen/klog/klog/app/cli/util"
	"verifharness/core"
	"verifharness/gen"
	"verifharness/obs"
	"verifharness/ref"
)

// C12 — all evaluation views partition the same total.

func init() {
	core.Register(&core.Prop{
		ID:    "C12",
		Level: "exploration",
		Rule: "generated valid files (unsorted, duplicate dates, dates clustered around ISO week 52/53/1, month/quarter/year ends, leap days, negative totals, open ranges) x every aggregation (day, week, month, quarter, year) x --fill (span <= 3000 days) x --diff x --now (virtual clock) x a date / entry-type / tag filter; " +
			"the `klog report --decimal --no-style` table is parsed back (labels decoded: year carried forward, `Week NN` in ISO week-years, month names, Qn, weekday+day) and compared with the reference calendar's buckets: " +
			"exactly the expected rows in chronological order, each row = sum of the records whose date lies in that period, filled gaps empty and consecutive, rows sum to the grand total, grand total = `klog total` with the same flags = reference evaluator; " +
			"`klog today`: Today/Yesterday + Other = All = total, current-day split per reference; `print --with-totals`: entry column sums to record column, record columns sum to the total. " +
			"non-trivial & distinct = (file, view) with >=2 records in one bucket or a bucket boundary inside an ISO week that spans a year change, by hash",
		Planned: func(tier string, seed uint64) int64 { return map[string]int64{"quick": 40000, "thorough": 1500000}[tier] },
		Run:     runC12,
	})
}

var monthNames = map[string]int{"Jan": 1, "Feb": 2, "Mar": 3, "Apr": 4, "May": 5, "Jun": 6, "Jul": 7, "Aug": 8, "Sep": 9, "Oct": 10, "Nov": 11, "Dec": 12}
var weekdayNames = map[string]int{"Mon": 1, "Tue": 2, "Wed": 3, "Thu": 4, "Fri": 5, "Sat": 6, "Sun": 7}

type reportRow struct {
	key    string // period key decoded from the label
	values []int  // total [should diff]; empty for filled gaps
}

// parseReport parses `klog report --decimal --no-style [--diff]` for the given aggregation.
func parseReport(out, agg string, diff bool, firstYear int) (rows []reportRow, grand []int, err error) {
	lines := strings.Split(strings.TrimRight(out, "\n"), "\n")
	if len(lines) < 3 {
		return nil, nil, fmt.Errorf("report has only %d lines", len(lines))
	}
	if !strings.Contains(lines[0], "Total") {
		return nil, nil, fmt.Errorf("header line without `Total`: %q", lines[0])
	}
	nvals := 1
	if diff {
		nvals = 3
	}
	sepIdx := len(lines) - 2
	if strings.Trim(lines[sepIdx], " =") != "" || !strings.Contains(lines[sepIdx], "=") {
		return nil, nil, fmt.Errorf("separator line expected, got %q", lines[sepIdx])
	}
	ints := func(toks []string) ([]int, error) {
		var vs []int
		for _, t := range toks {
			v, e := strconv.Atoi(t)
			if e != nil {
				return nil, fmt.Errorf("not an integer cell: %q", t)
			}
			vs = append(vs, v)
		}
		return vs, nil
	}
	g, gerr := ints(strings.Fields(lines[len(lines)-1]))
	if gerr != nil || len(g) != nvals {
		return nil, nil, fmt.Errorf("grand total line %q", lines[len(lines)-1])
	}
	grand = g
	year, month := -1<<30, -1
	for _, l := range lines[1:sepIdx] {
		toks := strings.Fields(l)
		var key string
		var rest []string
		takeYear := func() error {
			if len(toks) > 0 {
				if y, e := strconv.Atoi(toks[0]); e == nil && !strings.HasSuffix(toks[0], ".") && (len(toks[0]) >= 1) && isLabelNext(toks, agg) {
					year = y
					month = -1
					toks = toks[1:]
				}
			}
			if year == -1<<30 {
				// klog prints the year only when it changes; the label is the harness's decoding device, not part of the
				// property, so a first row without label is decoded with the year of the first expected bucket
				year = firstYear
			}
			return nil
		}
		switch agg {
		case "y":
			if len(toks) == 0 {
				return nil, nil, fmt.Errorf("empty row")
			}
			y, e := strconv.Atoi(toks[0])
			if e != nil {
				return nil, nil, fmt.Errorf("year row %q", l)
			}
			key, rest = fmt.Sprintf("y%d", y), toks[1:]
		case "q":
			if e := takeYear(); e != nil {
				return nil, nil, e
			}
			if len(toks) == 0 || len(toks[0]) != 2 || toks[0][0] != 'Q' {
				return nil, nil, fmt.Errorf("quarter row %q", l)
			}
			key, rest = fmt.Sprintf("q%d-%c", year, toks[0][1]), toks[1:]
		case "m":
			if e := takeYear(); e != nil {
				return nil, nil, e
			}
			if len(toks) == 0 || monthNames[toks[0]] == 0 {
				return nil, nil, fmt.Errorf("month row %q", l)
			}
			key, rest = fmt.Sprintf("m%d-%d", year, monthNames[toks[0]]), toks[1:]
		case "w":
			if e := takeYear(); e != nil {
				return nil, nil, e
			}
			if len(toks) < 2 || toks[0] != "Week" {
				return nil, nil, fmt.Errorf("week row %q", l)
			}
			wn, e := strconv.Atoi(toks[1])
			if e != nil {
				return nil, nil, fmt.Errorf("week row %q", l)
			}
			key, rest = fmt.Sprintf("w%d-%d", year, wn), toks[2:]
		default: // day
			if e := takeYear(); e != nil {
				return nil, nil, e
			}
			if len(toks) > 0 && monthNames[toks[0]] != 0 && (len(toks) > 1 && weekdayNames[toks[1]] != 0) {
				month = monthNames[toks[0]]
				toks = toks[1:]
			}
			if month < 0 || len(toks) < 2 || weekdayNames[toks[0]] == 0 || !strings.HasSuffix(toks[1], ".") {
				return nil, nil, fmt.Errorf("day row %q", l)
			}
			dn, e := strconv.Atoi(strings.TrimSuffix(toks[1], "."))
			if e != nil {
				return nil, nil, fmt.Errorf("day row %q", l)
			}
			key, rest = fmt.Sprintf("d%d-%d-%d/%d", year, month, dn, weekdayNames[toks[0]]), toks[2:]
		}
		vs, e := ints(rest)
		if e != nil || (len(vs) != 0 && len(vs) != nvals) {
			return nil, nil, fmt.Errorf("value cells of row %q", l)
		}
		rows = append(rows, reportRow{key, vs})
	}
	return rows, grand, nil
}

func isLabelNext(toks []string, agg string) bool {
	if len(toks) < 2 {
		return false
	}
	switch agg {
	case "q":
		return len(toks[1]) == 2 && toks[1][0] == 'Q'
	case "m":
		return monthNames[toks[1]] != 0
	case "w":
		return toks[1] == "Week"
	}
	return monthNames[toks[1]] != 0 || weekdayNames[toks[1]] != 0
}

func periodKey(agg string, d ref.Date) (string, int) {
	switch agg {
	case "y":
		return fmt.Sprintf("y%d", d.Y), ref.PeriodID(ref.PYear, d)
	case "q":
		return fmt.Sprintf("q%d-%d", d.Y, ref.Quarter(d.M)), ref.PeriodID(ref.PQuarter, d)
	case "m":
		return fmt.Sprintf("m%d-%d", d.Y, d.M), ref.PeriodID(ref.PMonth, d)
	case "w":
		wy, ww := ref.ISOWeek(d.Y, d.M, d.D)
		return fmt.Sprintf("w%d-%d", wy, ww), ref.PeriodID(ref.PWeek, d)
	}
	return fmt.Sprintf("d%d-%d-%d/%d", d.Y, d.M, d.D, ref.Weekday(d.Days())), d.Days()
}

func runC12(e *core.Env) {
	total := int64(e.N(3400, 125000))
	for i := int64(0); i < total; i++ {
		if !e.Mine(i) {
			continue
		}
		r := core.NewRand(e.Seed, 12, uint64(i))
		y := r.PickInt(2019, 2020, 2021, 2024, 2026, 1999, 4, 9998)
		today := ref.Date{Y: y, M: r.PickInt(1, 2, 3, 6, 12, 12, 12), D: 1}
		today.D = r.PickInt(1, 28, ref.DaysInMonth(today.Y, today.M))
		if r.Chance(1, 10) {
			today = obs.DSTDates[r.Intn(len(obs.DSTDates))]
		}
		o := gen.Opts{MaxRecs: 12, MinRecs: 1, MaxEntries: 4, OpenRanges: 1, Tags: 1, Near: &today, NearSpread: r.PickInt(2, 8, 40, 200, 900), Hostile: r.Chance(1, 5), MaxHours: 12, LookAlikes: r.Chance(1, 2), TrailingBlank: r.Chance(1, 3)}
		d := gen.Document(r, o)
		switch core.Hash64("c12-size", fmt.Sprint(e.Seed, i)) % 300 {
		case 0: // more than a thousand records behind the generated ones
			if x, ok := withAppended(d, manyRecordsText(r, r.PickInt(1001, 1300))); ok {
				d = x
			}
		case 1: // a line beyond 64 KiB
			if x, ok := withAppended(d, longLineText(r, r.PickInt(65536, 70000))); ok {
				d = x
			}
		case 2, 3, 4, 5, 6, 7: // a record three to four centuries away from the others (spans beyond what a time.Duration can hold)
			if fy := today.Y - r.Range(293, 400); fy >= 0 {
				if x, ok := withAppended(d, fmt.Sprintf("%04d-%02d-%02d\n    1h long ago\n", fy, r.Range(1, 12), r.Range(1, 28))); ok {
					d = x
				}
			}
		}
		f := writeFile(e.Dir, "c12.klg", d.Text)
		inFiles := []string{f}
		if r.Chance(1, 5) {
			if parts, ok := splitAtRecord(e, r, d, "c12"); ok {
				inFiles = parts
			}
		}
		minute := r.Intn(1440)
		if obs.IsDSTDate(today) && minute%3 != 0 {
			minute = obs.NearMidnight(minute) // where "24 hours ago" and "yesterday" part ways
		}
		clock := obs.ClockAt(today, minute, 0)
		if i%2 == 0 && len(d.Doc.Recs) > 0 {
			caseID := total*12 + i
			e.Begin(caseID, []byte(fmt.Sprintf("today=%s overlapping range clauses\n%s", today, d.Text)))
			c12Overlapping(e, r, d, f, clock)
			e.End(caseID)
		}
		for v := 0; v < 12; v++ {
			caseID := i*12 + int64(v)
			var q query
			switch r.Intn(5) {
			case 0:
				dd := dateOfRecOrNear(r, d.Doc)
				if r.Bool() {
					q.Since = &dd
				} else {
					q.Until = &dd
				}
			case 1:
				q.EntryType = r.Pick("range", "open-range", "duration")
			case 2:
				if ts := docTags(d.Doc); len(ts) > 0 {
					t, arg := genTagQuery(r, ts)
					q.Tags, q.TagArgs = []ref.Tag{t}, []string{arg}
				}
			}
			agg := []string{"d", "w", "m", "q", "y"}[v%5]
			view := fmt.Sprintf("agg=%s fill=%v", agg, v%2 == 0)
			e.Begin(caseID, []byte(fmt.Sprintf("today=%s %02d:%02d view=%s query=%s\n%s", today, minute/60, minute%60, view, q.String(), d.Text)))
			c12Check(e, r, d, f, inFiles, q, agg, v%2 == 0, r.Bool(), r.Chance(1, 3), today, minute, clock, v)
			e.End(caseID)
		}
	}
}

func c12Check(e *core.Env, r *core.Rand, d *gen.Out, f string, inFiles []string, q query, agg string, fill, diff, now bool, today ref.Date, minute int, clock timeT, v int) {
	w := map[string]any{"text": d.Text, "view": fmt.Sprintf("report -a %s fill=%v diff=%v now=%v %s", agg, fill, diff, now, q.String()), "clock": clock.Format("2006-01-02T15:04")}
	sel, undecided := q.apply(d.Doc, today)
	if undecided || (len(q.Tags) > 0 && hasTagAmbiguity(d.Doc)) {
		return
	}
	// the selection as a document (entries trimmed)
	sdoc := &ref.Doc{}
	for _, x := range sel {
		rc := x.Rec.Clone()
		var ents []ref.Ent
		for _, k := range x.Entries {
			ents = append(ents, rc.Entries[k])
		}
		rc.Entries = ents
		sdoc.Recs = append(sdoc.Recs, rc)
	}
	extra := make([]int, len(sdoc.Recs))
	if now {
		ex, _, ok := nowClosing(sdoc, today, minute)
		if !ok {
			e.Count("uncloseable_now_cases_skipped", 1)
			return
		}
		extra = ex
	}
	if fill && len(sdoc.Recs) > 0 {
		lo, hi := 1<<60, -(1 << 60)
		for i := range sdoc.Recs {
			dd := sdoc.Recs[i].Date.Days()
			if dd < lo {
				lo = dd
			}
			if dd > hi {
				hi = dd
			}
		}
		if hi-lo > 3000 && !((agg == "y" || agg == "q") && hi-lo <= 150000) {
			fill = false // (day-by-day filling of long spans is legitimately slow; years and quarters over up to ~400 years are driven)
		}
	}
	fa, _, ok := buildFilterArgs(q)
	if !ok {
		return
	}
	cpus := r.PickInt(1, 1, 3)
	// the bar chart: one more cell per data row, none in gap rows; the bar is a view of the same total
	chart, chartRes := core.Hash64("c12-chart", d.Text, fmt.Sprint(w["view"]))%4 == 0, 0
	if chart && core.Hash64("c12-chartres", d.Text)%2 == 0 {
		chartRes = []int{15, 30, 60, 240, 7}[core.Hash64("c12-chartres2", d.Text, fmt.Sprint(w["view"]))%5]
	}
	res := runRO(e, &cli.Report{AggregateBy: agg, Fill: fill, Chart: chart, ChartResolution: chartRes, DiffArgs: util.DiffArgs{Diff: diff}, FilterArgs: fa, NowArgs: util.NowArgs{Now: now}, DecimalArgs: util.DecimalArgs{Decimal: true},
		WarnArgs: util.WarnArgs{NoWarn: true}, NoStyleArgs: util.NoStyleArgs{NoStyle: true}, InputFilesArgs: util.InputFilesArgs{File: files(inFiles...)}}, cpus, "", "", clock)
	if len(inFiles) > 1 {
		e.Count("views_over_two_input_files", 1)
	}
	if res.Panic != nil {
		e.Violation("report-panic: "+res.Panic.Site(), res.Panic.Value, w)
		return
	}
	if res.Err != nil {
		e.Violation("report-fails", fmt.Sprintf("%s failed although every open range is closeable: %s %s", w["view"], res.Err.Error(), res.Err.Details()), w)
		return
	}
	if core.Hash64("cli", d.Text, fmt.Sprint(w["view"]))%20 == 0 && q.cliOK() {
		args := []string{"report", "--aggregate", agg, "--decimal", "--no-warn", "--no-style"}
		if fill {
			args = append(args, "--fill")
		}
		if diff {
			args = append(args, "--diff")
		}
		if now {
			args = append(args, "--now")
		}
		if chart {
			args = append(args, "--chart")
		}
		if chartRes > 0 {
			args = append(args, "--chart-res", strconv.Itoa(chartRes))
		}
		args = append(append(args, q.Args()...), inFiles...)
		if !cliAgrees(e, w, args, cpus, "", "", clock, res.Out, false) {
			return
		}
	}
	tres := runRO(e, &cli.Total{FilterArgs: fa, DiffArgs: util.DiffArgs{Diff: diff}, NowArgs: util.NowArgs{Now: now}, DecimalArgs: util.DecimalArgs{Decimal: true},
		WarnArgs: util.WarnArgs{NoWarn: true}, NoStyleArgs: util.NoStyleArgs{NoStyle: true}, InputFilesArgs: util.InputFilesArgs{File: files(f)}}, cpus, "", "", clock)
	if tres.Panic != nil || tres.Err != nil {
		e.Violation("total-fails", fmt.Sprintf("klog total with the same flags failed: %v", tres.Err), w)
		return
	}
	to, perr := parseTotalOutput(tres.Out)
	if perr != nil {
		e.Violation("total-output-malformed", perr.Error(), w)
		return
	}
	wantTotal, wantShould := 0, 0
	for i := range sdoc.Recs {
		wantTotal += sdoc.Recs[i].Total() + extra[i]
		wantShould += sdoc.Recs[i].ShouldMins()
	}
	if to.Total != strconv.Itoa(wantTotal) {
		e.Violation("total-differs-from-reference", fmt.Sprintf("`klog total` (%s) = %s, reference evaluator = %d", w["view"], to.Total, wantTotal), w)
		return
	}
	if len(sdoc.Recs) == 0 {
		if strings.TrimSpace(res.Out) != "" {
			e.Violation("report-for-empty-selection", "report prints rows although no record is selected:\n"+res.Out, w)
		}
		return
	}
	// expected buckets
	type bucket struct {
		key           string
		id            int
		total, should int
		n             int
	}
	byID := map[int]*bucket{}
	var order []int
	minD, maxD := 1<<60, -(1 << 60)
	for i := range sdoc.Recs {
		rc := &sdoc.Recs[i]
		k, id := periodKey(agg, rc.Date)
		b := byID[id]
		if b == nil {
			b = &bucket{key: k, id: id}
			byID[id] = b
			order = append(order, id)
		}
		b.total += rc.Total() + extra[i]
		b.should += rc.ShouldMins()
		b.n++
		if rc.Date.Days() < minD {
			minD = rc.Date.Days()
		}
		if rc.Date.Days() > maxD {
			maxD = rc.Date.Days()
		}
	}
	var wantRows []reportRow
	if fill {
		seen := map[int]bool{}
		for dd := minD; dd <= maxD; dd++ {
			k, id := periodKey(agg, ref.DateFromDays(dd))
			if seen[id] {
				continue
			}
			seen[id] = true
			if b := byID[id]; b != nil {
				vals := []int{b.total}
				if diff {
					vals = []int{b.total, b.should, b.total - b.should}
				}
				wantRows = append(wantRows, reportRow{k, vals})
			} else {
				wantRows = append(wantRows, reportRow{k, nil})
			}
		}
	} else {
		// chronological order of buckets
		ids := append([]int(nil), order...)
		for a := 1; a < len(ids); a++ {
			for b := a; b > 0 && ids[b] < ids[b-1]; b-- {
				ids[b], ids[b-1] = ids[b-1], ids[b]
			}
		}
		for _, id := range ids {
			b := byID[id]
			vals := []int{b.total}
			if diff {
				vals = []int{b.total, b.should, b.total - b.should}
			}
			wantRows = append(wantRows, reportRow{b.key, vals})
		}
	}
	firstYear := 0
	if len(wantRows) > 0 {
		fmt.Sscanf(wantRows[0].key[1:], "%d", &firstYear)
	}
	reportText := res.Out
	var bars []int
	if chart {
		var sb strings.Builder
		ls := strings.Split(strings.TrimRight(res.Out, "\n"), "\n")
		for k, l := range ls {
			if k >= 1 && k < len(ls)-2 {
				bars = append(bars, strings.Count(l, "▇"))
			} else if strings.Contains(l, "▇") {
				e.Violation("report-output-malformed", "a bar outside the data rows:\n"+res.Out, w)
				return
			}
			sb.WriteString(strings.TrimRight(strings.ReplaceAll(l, "▇", ""), " ") + "\n")
		}
		reportText = sb.String()
	}
	rows, grand, rerr := parseReport(reportText, agg, diff, firstYear)
	if rerr != nil {
		e.Violation("report-output-malformed", fmt.Sprintf("%v\n%s", rerr, res.Out), w)
		return
	}
	describe := func(rs []reportRow) string {
		var sb strings.Builder
		for _, x := range rs {
			fmt.Fprintf(&sb, "%s=%v ", x.key, x.values)
		}
		return sb.String()
	}
	if len(rows) != len(wantRows) {
		e.Violation("report-rows-wrong", fmt.Sprintf("%s shows %d rows, expected %d\nshown:    %s\nexpected: %s\n%s", w["view"], len(rows), len(wantRows), describe(rows), describe(wantRows), res.Out), w)
		return
	}
	sum := make([]int, len(grand))
	for k := range rows {
		if rows[k].key != wantRows[k].key || fmt.Sprint(rows[k].values) != fmt.Sprint(wantRows[k].values) {
			e.Violation("report-rows-wrong", fmt.Sprintf("%s: row %d is %s=%v, expected %s=%v (each record counts in the one period that contains its date; gaps are empty)\n%s", w["view"], k, rows[k].key, rows[k].values, wantRows[k].key, wantRows[k].values, res.Out), w)
			return
		}
		for c := range rows[k].values {
			sum[c] += rows[k].values[c]
		}
	}
	if fmt.Sprint(sum) != fmt.Sprint(grand) {
		e.Violation("report-rows-do-not-sum-to-grand-total", fmt.Sprintf("%s: rows sum to %v, grand total line shows %v\n%s", w["view"], sum, grand, res.Out), w)
		return
	}
	if strconv.Itoa(grand[0]) != to.Total || (diff && (strconv.Itoa(grand[1]) != to.Should || strconv.Itoa(grand[2]) != to.Diff)) {
		e.Violation("report-grand-total-differs-from-klog-total", fmt.Sprintf("%s: grand total %v, `klog total` says Total=%s Should=%s Diff=%s", w["view"], grand, to.Total, to.Should, to.Diff), w)
		return
	}
	if chart {
		unit := chartRes
		if unit == 0 {
			unit = map[string]int{"y": 3360, "q": 480, "m": 240, "w": 60, "d": 15}[agg[:1]]
		}
		for k := range rows {
			want := 0
			if len(rows[k].values) > 0 && rows[k].values[0] > 0 {
				want = (rows[k].values[0] + unit - 1) / unit
			}
			if k >= len(bars) || bars[k] != want {
				e.Violation("report-chart-wrong", fmt.Sprintf("%s: row %d (%s, total %v) has a bar of %d blocks, expected %d (one block per started %d minutes)\n%s", w["view"], k, rows[k].key, rows[k].values, bars[k], want, unit, res.Out), w)
				return
			}
		}
		e.Count("report_views_with_chart", 1)
	}
	_ = wantShould
	e.Count("report_views", 1)
	multi := false
	for _, b := range byID {
		if b.n >= 2 {
			multi = true
		}
	}
	if multi || d.Feat["dup_dates"] {
		e.Nontrivial(core.Hash64("c12", d.Text, fmt.Sprint(w["view"])))
	}
	if e.WantSample() && multi && len(d.Text) < 500 && agg == "w" {
		e.Sample(map[string]any{"file": d.Text, "view": w["view"], "clock": w["clock"], "report": res.Out})
	}
	// today and print --with-totals once per file
	if v == 0 {
		c12Today(e, r, d, f, today, minute, clock, w)
	}
}

// c12Overlapping: several date-range clauses at once (a period together with --before / --after / --since / --until that
// reach beyond it). Which clause wins is not this property's subject and no reference selection is used: whatever klog
// selects, the rows of `report` (with and without --fill) must add up to the report's own grand total and to `klog total`
// with the same flags.
func c12Overlapping(e *core.Env, r *core.Rand, d *gen.Out, f string, clock timeT) {
	rd := d.Doc.Recs[r.Intn(len(d.Doc.Recs))].Date
	var q query
	switch r.Intn(4) {
	case 0:
		q.Period = fmt.Sprintf("%04d", rd.Y)
		q.PeriodSince, q.PeriodUntil = ref.PeriodBounds(ref.PYear, rd)
	case 1:
		q.Period = fmt.Sprintf("%04d-Q%d", rd.Y, ref.Quarter(rd.M))
		q.PeriodSince, q.PeriodUntil = ref.PeriodBounds(ref.PQuarter, rd)
	default:
		q.Period = fmt.Sprintf("%04d-%02d", rd.Y, rd.M)
		q.PeriodSince, q.PeriodUntil = ref.PeriodBounds(ref.PMonth, rd)
	}
	if q.PeriodSince-70 < ref.MinDay || q.PeriodUntil+70 > ref.MaxDay {
		return
	}
	lo, hi := ref.DateFromDays(q.PeriodSince-r.PickInt(1, 7, 35, 65)), ref.DateFromDays(q.PeriodUntil+r.PickInt(1, 7, 35, 65))
	switch r.Intn(6) {
	case 0:
		q.Before = &hi
	case 1:
		q.After = &lo
	case 2:
		q.Before, q.After = &hi, &lo
	case 3:
		q.Until = &hi
	case 4:
		q.Since = &lo
	case 5:
		q.Before, q.Since = &hi, &lo
	}
	fa, _, ok := buildFilterArgs(q)
	if !ok {
		return
	}
	agg := r.Pick("d", "w", "m", "q", "y")
	tres := runRO(e, &cli.Total{FilterArgs: fa, DecimalArgs: util.DecimalArgs{Decimal: true}, WarnArgs: util.WarnArgs{NoWarn: true}, NoStyleArgs: util.NoStyleArgs{NoStyle: true}, InputFilesArgs: util.InputFilesArgs{File: files(f)}}, 1, "", "", clock)
	if tres.Panic != nil || tres.Err != nil {
		return // (an unacceptable combination is C13's subject)
	}
	to, perr := parseTotalOutput(tres.Out)
	if perr != nil {
		return
	}
	for _, fill := range []bool{false, true} {
		w := map[string]any{"text": d.Text, "view": fmt.Sprintf("report -a %s fill=%v %s", agg, fill, q.String()), "clock": clock.Format("2006-01-02T15:04"), "klog_total_with_the_same_flags": to.Total}
		res := runRO(e, &cli.Report{AggregateBy: agg, Fill: fill, FilterArgs: fa, DecimalArgs: util.DecimalArgs{Decimal: true}, WarnArgs: util.WarnArgs{NoWarn: true}, NoStyleArgs: util.NoStyleArgs{NoStyle: true}, InputFilesArgs: util.InputFilesArgs{File: files(f)}}, 1, "", "", clock)
		if res.Panic != nil {
			e.Violation("report-panic: "+res.Panic.Site(), res.Panic.Value, w)
			return
		}
		if res.Err != nil {
			e.Violation("report-fails", fmt.Sprintf("%s fails where `klog total` with the same flags works: %s", w["view"], res.Err.Error()), w)
			return
		}
		w["report"] = res.Out
		if strings.TrimSpace(res.Out) == "" {
			if to.Total != "0" {
				e.Violation("rows-do-not-add-up", fmt.Sprintf("%s prints nothing, `klog total` with the same flags = %s", w["view"], to.Total), w)
				return
			}
			continue
		}
		rows, grand, rerr := parseReport(res.Out, agg, false, rd.Y)
		if rerr != nil {
			e.Count("overlapping_clause_reports_not_decoded", 1)
			continue
		}
		sum := 0
		for _, row := range rows {
			if len(row.values) > 0 {
				sum += row.values[0]
			}
		}
		if sum != grand[0] || strconv.Itoa(grand[0]) != to.Total {
			e.Violation("rows-do-not-add-up", fmt.Sprintf("%s: rows add up to %d, grand total %d, `klog total` with the same flags %s", w["view"], sum, grand[0], to.Total), w)
			return
		}
		e.Count("overlapping_clause_reports_adding_up", 1)
	}
}

func c12Today(e *core.Env, r *core.Rand, d *gen.Out, f string, today ref.Date, minute int, clock timeT, w map[string]any) {
	now := r.Bool()
	extra := make([]int, len(d.Doc.Recs))
	if now {
		ex, _, ok := nowClosing(d.Doc, today, minute)
		if !ok {
			return
		}
		extra = ex
	}
	res := runRO(e, &cli.Today{NowArgs: util.NowArgs{Now: now}, DecimalArgs: util.DecimalArgs{Decimal: true}, WarnArgs: util.WarnArgs{NoWarn: true}, NoStyleArgs: util.NoStyleArgs{NoStyle: true},
		InputFilesArgs: util.InputFilesArgs{File: files(f)}}, 1, "", "", clock)
	if res.Panic != nil || res.Err != nil {
		e.Violation("today-fails", fmt.Sprintf("klog today failed: panic=%v err=%v", res.Panic != nil, res.Err), w)
		return
	}
	var curLabel string
	cur, other, all := "", "", ""
	for _, l := range strings.Split(res.Out, "\n") {
		t := strings.Fields(l)
		if len(t) < 2 {
			continue
		}
		switch t[0] {
		case "Today", "Yesterday":
			curLabel, cur = t[0], t[1]
		case "Other":
			other = t[1]
		case "All":
			all = t[1]
		}
	}
	wantCur, wantOther, haveToday, haveYesterday := 0, 0, false, false
	for i := range d.Doc.Recs {
		switch d.Doc.Recs[i].Date.Days() {
		case today.Days():
			haveToday = true
		case today.Days() - 1:
			haveYesterday = true
		}
	}
	for i := range d.Doc.Recs {
		t := d.Doc.Recs[i].Total() + extra[i]
		dd := d.Doc.Recs[i].Date.Days()
		if (haveToday && dd == today.Days()) || (!haveToday && haveYesterday && dd == today.Days()-1) {
			wantCur += t
		} else {
			wantOther += t
		}
	}
	wantLabel := "Today"
	if !haveToday && haveYesterday {
		wantLabel = "Yesterday"
	}
	wantCurS := strconv.Itoa(wantCur)
	if !haveToday && !haveYesterday {
		wantCurS = "n/a"
	}
	if curLabel != wantLabel || cur != wantCurS || other != strconv.Itoa(wantOther) || all != strconv.Itoa(wantCur+wantOther) {
		e.Violation("today-split-wrong", fmt.Sprintf("klog today (now=%v, clock %s) shows %s=%s Other=%s All=%s; expected %s=%s Other=%d All=%d\n%s", now, w["clock"], curLabel, cur, other, all, wantLabel, wantCurS, wantOther, wantCur+wantOther, res.Out), w)
		return
	}
	e.Count("today_views", 1)
	if r.Chance(1, 2) && !checkFollow(e, r, d, f, today, minute, 0, w) {
		return
	}
	if !now {
		pres := runRO(e, &cli.Print{WithTotals: true, WarnArgs: util.WarnArgs{NoWarn: true}, NoStyleArgs: util.NoStyleArgs{NoStyle: true}, InputFilesArgs: util.InputFilesArgs{File: files(f)}}, 1, "", "", clock)
		if pres.Panic == nil && pres.Err == nil {
			if diff := c02CheckWithTotals(pres.Out, d.Doc); diff != "" {
				e.Violation("print-with-totals-wrong", diff, w)
				return
			}
			e.Count("print_with_totals_views", 1)
		}
		// the same view narrowed to single days: small outputs, in which an entry's value may be wider than every record total
		for k := 0; k < 2 && len(d.Doc.Recs) > 0; k++ {
			day := d.Doc.Recs[r.Intn(len(d.Doc.Recs))].Date
			sub := &ref.Doc{}
			for i := range d.Doc.Recs {
				if d.Doc.Recs[i].Date == day {
					sub.Recs = append(sub.Recs, d.Doc.Recs[i])
				}
			}
			fres := runRO(e, &cli.Print{WithTotals: true, FilterArgs: util.FilterArgs{Date: kdate(day.Y, day.M, day.D)}, WarnArgs: util.WarnArgs{NoWarn: true}, NoStyleArgs: util.NoStyleArgs{NoStyle: true},
				InputFilesArgs: util.InputFilesArgs{File: files(f)}}, 1, "", "", clock)
			if fres.Panic != nil {
				e.Violation("print-with-totals-panic: "+fres.Panic.Site(), fmt.Sprintf("`klog print --with-totals --date %s` panicked: %s", day, fres.Panic.Value), w)
				return
			}
			if fres.Err == nil {
				if diff := c02CheckWithTotals(fres.Out, sub); diff != "" {
					e.Violation("print-with-totals-wrong", fmt.Sprintf("`klog print --with-totals --date %s`: %s\n%s", day, diff, trunc(fres.Out, 800)), w)
					return
				}
				e.Count("print_with_totals_single_day_views", 1)
			}
		}
	}
}
