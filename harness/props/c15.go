package props

import (
	"reflect"
	"fmt"
	"os"
	"strconv"
	"strings"
	"time"

	"github.com/jotaen/klog/klog/app/cli"
	"github.com/jotaen/klog/klog/app/cli/report"
	"github.com/jotaen/klog/klog/app/cli/util"

	"github.com/jotaen/klog/klog"
	"github.com/jotaen/klog/klog/service/period"
	"verifharness/core"
	"verifharness/ref"
)

// C15 — calendar periods tile the calendar exactly.
//
// Workload: every date of a set of year windows (thorough: all years
// 0000..9999, i.e. all 3 652 425 dates) and every period pattern string of the
// four shapes for those years. Oracle: the independent proleptic-Gregorian
// calendar in ref/calendar.go.

func c15Years(e *core.Env) []int {
	var ys []int
	if !e.Quick() || e.Prop == "C15" { // the complete calendar takes ~15 s: the quick tier of C15 is exhaustive as well
		for y := 0; y <= 9999; y++ {
			ys = append(ys, y)
		}
		return ys
	}
	r := core.NewRand(e.Seed, 15)
	start := 3 + r.Intn(9990-400)
	seen := map[int]bool{}
	add := func(y int) {
		if y >= 0 && y <= 9999 && !seen[y] {
			seen[y] = true
			ys = append(ys, y)
		}
	}
	for _, y := range []int{0, 1, 2, 3, 9996, 9997, 9998, 9999} {
		add(y)
	}
	for y := start; y < start+400; y++ {
		add(y)
	}
	return ys
}

func kdate(y, m, d int) klog.Date {
	dt, err := klog.NewDate(y, m, d)
	if err != nil {
		panic(fmt.Sprintf("harness: klog.NewDate(%d,%d,%d) failed: %v", y, m, d, err))
	}
	return dt
}

func sameDate(k klog.Date, days int) bool {
	y, m, d := ref.CivilFromDays(days)
	return k.Year() == y && k.Month() == m && k.Day() == d
}

func fmtDays(days int) string {
	return ref.FormatDate(ref.DateFromDays(days), true)
}

func init() {
	core.Register(&core.Prop{
		ID:    "C15",
		Level: "exploration",
		Rule: "cases are (a) every calendar date of the explored years, each checked for weekday, ISO week, quarter, the week/month/quarter/year period " +
			"(bounds, containment, previous period, bucket hash) and (b) every pattern string YYYY, YYYY-MM (00-99), YYYY-Qq (0-9), YYYY-Www/YYYY-Ww (0-99) of those years plus malformed shapes; " +
			"both tiers enumerate all years 0000-9999 (exhaustive: 3 652 425 dates, 2.5 M pattern strings); " +
			"(c) bucket keys over the whole calendar, backward walks period by period, and (sampled, not exhaustive) `klog report --fill` for every aggregation over two records whose first date runs through every day of several 4-year windows: the rows must be exactly the consecutive periods from the first to the last date, each once. " +
			"non-trivial & distinct = a (date) at which at least one of week/month/quarter/year period changes w.r.t. the previous day, or a pattern string that denotes an existing period; counted by hash set",
		Assumptions: []string{
			"reference calendar: Hinnant's days-from-civil algorithms in harness/ref/calendar.go, self-checked against Go's time package at start-up",
			"periods sticking out of 0000-01-01..9999-12-31 are expected clamped to that range; Previous() is only demanded where the previous period is representable",
		},
		Exhaustive: func(tier string) bool { return true },
		Run:        runC15,
	})
}

func runC15(e *core.Env) {
	// reference self-check against Go's time package (infrastructure, not klog)
	if msg := ref.SelfCheckCalendar(e.Seed); msg != "" {
		panic("harness: reference calendar self-check failed: " + msg)
	}
	years := c15Years(e)
	// two global cases (each on one shard): bucket keys over the WHOLE calendar, and walking the calendar backwards period by period
	for g := 0; g < 2; g++ {
		i := int64(len(years) + g)
		if !e.Mine(i) {
			continue
		}
		if g == 0 {
			e.Begin(i, []byte("global bucket keys"))
			e.Evals(c15GlobalBuckets(e))
		} else {
			e.Begin(i, []byte("backward walks"))
			e.Evals(c15BackwardWalks(e))
		}
		e.End(i)
	}
	// report --fill: every period between two dates gets exactly one row (one case per window and aggregation)
	wins := []int{2021, 1897, 0, 9995, 2097, 1599}
	if e.Quick() {
		wins = []int{2021, []int{1897, 0, 9995, 2097, 1599, 2397, 401}[e.Seed%7]}
	}
	for wi, wy := range wins {
		for ai, agg := range []string{"d", "w", "m", "q", "y"} {
			i := int64(len(years) + 2 + wi*5 + ai)
			if !e.Mine(i) {
				continue
			}
			e.Begin(i, []byte(fmt.Sprintf("report --fill walks, window %04d, aggregation %s", wy, agg)))
			e.Evals(c15FillWalks(e, wy, agg))
			e.End(i)
		}
	}
	// every pattern of the window years as `--period` of `total` and `report`: it selects exactly the days of the period
	for wi, wy := range wins {
		i := int64(len(years) + 2 + len(wins)*5 + wi)
		if !e.Mine(i) {
			continue
		}
		e.Begin(i, []byte(fmt.Sprintf("--period through total and report, window %04d", wy)))
		e.Evals(c15PeriodViews(e, wy))
		e.End(i)
	}
	for idx, y := range years {
		i := int64(idx)
		if !e.Mine(i) {
			continue
		}
		e.Begin(i, []byte(fmt.Sprintf("year %04d", y)))
		n := c15Year(e, y)
		if y >= 2008 && y <= 2026 {
			// the calendar must not depend on the process's local zone: repeat under zones whose local midnight sometimes does not exist
			saved := time.Local
			for _, zn := range []string{"America/Santiago", "America/Havana", "Pacific/Apia", "America/Sao_Paulo", "Atlantic/Azores", "America/Asuncion", "Asia/Beirut", "Africa/Cairo"} {
				if loc, err := time.LoadLocation(zn); err == nil {
					time.Local = loc
					n += c15Year(e, y)
					e.Count("year_blocks_repeated_under_another_local_zone", 1)
				}
			}
			time.Local = saved
		}
		e.Evals(n)
		e.End(i)
	}
}

// c15GlobalBuckets: one representative date per period over the whole calendar; the period hashes and the keys the report
// aggregators group by must tell any two different periods apart (the per-year pass cannot see two far-apart periods
// that share a key), and every date of a period must get that period's key from the aggregator as well.
func c15Agg(constructor any) report.Aggregator {
	v := reflect.ValueOf(constructor)
	args := make([]reflect.Value, v.Type().NumIn())
	for i := range args {
		args[i] = reflect.Zero(v.Type().In(i))
	}
	var a report.Aggregator
	core.Guard(func() { a, _ = v.Call(args)[0].Interface().(report.Aggregator) })
	return a // nil: cannot be constructed this way (its keys are then observed through `klog report` only)
}

func c15GlobalBuckets(e *core.Env) int64 {
	var n int64
	viol := func(key, msg string) { e.Violation(key, msg, map[string]any{"scope": "whole calendar"}) }
	type src struct {
		name string
		kind ref.PeriodKind
		key  func(d klog.Date) uint64
	}
	// (constructed through reflection with zero-valued arguments, so that a constructor that gains a parameter does not stop the harness from building)
	wa, ma, qa, ya, da := c15Agg(report.NewWeekAggregator), c15Agg(report.NewMonthAggregator), c15Agg(report.NewQuarterAggregator), c15Agg(report.NewYearAggregator), c15Agg(report.NewDayAggregator)
	srcs := []src{
		{"week-hash", ref.PWeek, func(d klog.Date) uint64 { return uint64(period.NewWeekFromDate(d).Hash()) }},
		{"month-hash", ref.PMonth, func(d klog.Date) uint64 { return uint64(period.NewMonthFromDate(d).Hash()) }},
		{"quarter-hash", ref.PQuarter, func(d klog.Date) uint64 { return uint64(period.NewQuarterFromDate(d).Hash()) }},
		{"year-hash", ref.PYear, func(d klog.Date) uint64 { return uint64(period.NewYearFromDate(d).Hash()) }},
		{"week-report-key", ref.PWeek, func(d klog.Date) uint64 { return uint64(wa.DateHash(d)) }},
		{"month-report-key", ref.PMonth, func(d klog.Date) uint64 { return uint64(ma.DateHash(d)) }},
		{"quarter-report-key", ref.PQuarter, func(d klog.Date) uint64 { return uint64(qa.DateHash(d)) }},
		{"year-report-key", ref.PYear, func(d klog.Date) uint64 { return uint64(ya.DateHash(d)) }},
		{"day-report-key", ref.PDay, func(d klog.Date) uint64 { return uint64(da.DateHash(d)) }},
	}
	for _, s := range srcs {
		if strings.HasSuffix(s.name, "-report-key") && map[string]report.Aggregator{"week-report-key": wa, "month-report-key": ma, "quarter-report-key": qa, "year-report-key": ya, "day-report-key": da}[s.name] == nil {
			e.Count("report_key_sources_not_constructible", 1)
			continue
		}
		seen := map[uint64]int{} // key -> first day of the period that owns it
		bad := 0
		step := 1
		for day := ref.MinDay; day <= ref.MaxDay && bad < 3; {
			rd := ref.DateFromDays(day)
			since, until := ref.PeriodBounds(s.kind, rd)
			if since < ref.MinDay {
				since = ref.MinDay
			}
			if until > ref.MaxDay {
				until = ref.MaxDay
			}
			// first, a middle and the last day of the period must agree; the key must be new
			var keys [3]uint64
			pi := core.Guard(func() {
				for k, dd := range []int{since, (since + until) / 2, until} {
					x := ref.DateFromDays(dd)
					keys[k] = s.key(kdate(x.Y, x.M, x.D))
				}
			})
			n += 3
			if pi != nil {
				viol(s.name+"-panic: "+pi.Site(), fmt.Sprintf("%s for the period %s..%s: %s", s.name, fmtDays(since), fmtDays(until), pi.Value))
				bad++
			} else if keys[0] != keys[1] || keys[1] != keys[2] {
				viol(s.name+"-split", fmt.Sprintf("%s: the days %s, %s and %s belong to one period but get the keys %d, %d, %d", s.name, fmtDays(since), fmtDays((since+until)/2), fmtDays(until), keys[0], keys[1], keys[2]))
				bad++
			} else if other, dup := seen[keys[0]]; dup {
				viol(s.name+"-collision", fmt.Sprintf("%s: the periods starting at %s and at %s are different but share the key %d", s.name, fmtDays(other), fmtDays(since), keys[0]))
				bad++
			} else {
				seen[keys[0]] = since
			}
			if s.kind == ref.PDay && day > ref.MinDay+800 && day < ref.MaxDay-800 {
				step = 97 // days: both ends of the calendar completely, every 97th day in between (the per-year pass sees them all)
			} else {
				step = 1
			}
			day = until + step
		}
		e.Count("global_distinct_"+s.name, int64(len(seen)))
	}
	return n
}

// c15FillWalks: two records, the first on every day of the 4-year window starting at year wy, the second a fixed span
// later; `klog report --aggregate agg --fill` must list exactly the consecutive periods from the first to the last date
// (two dates fall into one row exactly when they lie in the same period; a period in between gets its empty row).
func c15FillWalks(e *core.Env, wy int, agg string) int64 {
	var n int64
	span := map[string]int{"d": 45, "w": 150, "m": 430, "q": 520, "y": 1200}[agg]
	file := e.Dir + "/c15fill.klg"
	first := ref.DaysFromCivil(wy, 1, 1)
	bad := 0
	for d0 := first; d0 < first+1461 && d0 < ref.MaxDay && bad < 3; d0++ {
		d1 := d0 + span + (d0-first)%3
		if d1 > ref.MaxDay {
			d1 = ref.MaxDay
		}
		a, b := ref.DateFromDays(d0), ref.DateFromDays(d1)
		text := a.String() + "\n    1h\n\n" + b.String() + "\n    2h\n"
		if err := os.WriteFile(file, []byte(text), 0644); err != nil {
			panic(err)
		}
		n++
		w := map[string]any{"file": text, "command": "klog report --fill --decimal --no-style --aggregate " + agg}
		res := runRO(e, &cli.Report{AggregateBy: agg, Fill: true, DecimalArgs: util.DecimalArgs{Decimal: true}, WarnArgs: util.WarnArgs{NoWarn: true}, NoStyleArgs: util.NoStyleArgs{NoStyle: true},
			InputFilesArgs: util.InputFilesArgs{File: files(file)}}, 1, "", "", time.Date(2024, 5, 5, 12, 0, 0, 0, time.UTC))
		if res.Panic != nil {
			e.Violation("report-fill-panic: "+res.Panic.Site(), fmt.Sprintf("report --fill -a %s for %s and %s: %s", agg, a, b, res.Panic.Value), w)
			bad++
			continue
		}
		if res.Err != nil {
			e.Violation("report-fill-fails", fmt.Sprintf("report --fill -a %s for %s and %s fails: %s", agg, a, b, res.Err.Error()), w)
			bad++
			continue
		}
		w["output"] = res.Out
		firstYear := a.Y
		if agg == "w" {
			firstYear, _ = ref.ISOWeek(a.Y, a.M, a.D)
		}
		rows, _, perr := parseReport(res.Out, agg, false, firstYear)
		if perr != nil {
			e.Violation("report-fill-output-malformed", fmt.Sprintf("report --fill -a %s for %s and %s: %s", agg, a, b, perr.Error()), w)
			bad++
			continue
		}
		var want []reportRow
		lastID := -1 << 62
		for dd := d0; dd <= d1; dd++ {
			k, id := periodKey(agg, ref.DateFromDays(dd))
			if id == lastID {
				continue
			}
			lastID = id
			want = append(want, reportRow{key: k})
		}
		_, idA := periodKey(agg, a)
		_, idB := periodKey(agg, b)
		if idA == idB {
			want[0].values = []int{180}
		} else {
			want[0].values, want[len(want)-1].values = []int{60}, []int{120}
		}
		msg := ""
		for k := 0; k < len(want) || k < len(rows); k++ {
			switch {
			case k >= len(rows):
				msg = fmt.Sprintf("the row of period %s is missing (the report ends after %d rows, %d periods lie between the two dates)", want[k].key, len(rows), len(want))
			case k >= len(want):
				msg = fmt.Sprintf("surplus row %s", rows[k].key)
			case rows[k].key != want[k].key:
				msg = fmt.Sprintf("row %d is %s where the next period is %s", k+1, rows[k].key, want[k].key)
			case fmt.Sprint(rows[k].values) != fmt.Sprint(want[k].values):
				msg = fmt.Sprintf("row %s holds %v, expected %v (minutes)", rows[k].key, rows[k].values, want[k].values)
			}
			if msg != "" {
				break
			}
		}
		if msg != "" {
			e.Violation("report-fill-rows-are-not-the-consecutive-periods: "+agg, fmt.Sprintf("report --fill -a %s for records on %s and %s: %s", agg, a, b, msg), w)
			bad++
			continue
		}
		e.Count("fill_walk_reports", 1)
		e.Count("fill_walk_rows_"+agg, int64(len(rows)))
		if (d0-first)%50 == 0 {
			e.Nontrivial(core.Hash64("c15fill", agg, a.String()))
		}
	}
	return n
}

// c15PeriodViews: for every year, quarter, month and week pattern of the 4-year window starting at wy, a file with one
// record on each of the nine days before the period, its first two and last two days and the nine days after it;
// `klog total --period P` and `klog report --aggregate a --period P` (all five aggregations) must count exactly the
// records inside the period, and the report's rows must be the buckets of those dates.
func c15PeriodViews(e *core.Env, wy int) int64 {
	var n int64
	type pat struct {
		text         string
		since, until int
	}
	var pats []pat
	seen := map[string]bool{}
	add := func(text string, kind ref.PeriodKind, d ref.Date) {
		if seen[text] {
			return
		}
		seen[text] = true
		s, u := ref.PeriodBounds(kind, d)
		pats = append(pats, pat{text, s, u})
	}
	first := ref.DaysFromCivil(wy, 1, 1)
	for dd := first; dd < first+1461 && dd <= ref.MaxDay; dd++ {
		d := ref.DateFromDays(dd)
		add(fmt.Sprintf("%04d", d.Y), ref.PYear, d)
		add(fmt.Sprintf("%04d-Q%d", d.Y, ref.Quarter(d.M)), ref.PQuarter, d)
		add(fmt.Sprintf("%04d-%02d", d.Y, d.M), ref.PMonth, d)
		if wyr, ww := ref.ISOWeek(d.Y, d.M, d.D); wyr >= 0 && wyr <= 9999 {
			add(fmt.Sprintf("%04d-W%02d", wyr, ww), ref.PWeek, d)
		}
	}
	file := e.Dir + "/c15period.klg"
	clock := time.Date(2024, 5, 5, 12, 0, 0, 0, time.UTC)
	bad := 0
	for _, p := range pats {
		if bad >= 3 {
			break
		}
		if p.since-10 < ref.MinDay || p.until+10 > ref.MaxDay {
			continue
		}
		var days []int
		for k := p.since - 9; k <= p.since+1; k++ {
			days = append(days, k)
		}
		for k := p.until - 1; k <= p.until+9; k++ {
			if k > p.since+1 {
				days = append(days, k)
			}
		}
		var sb strings.Builder
		want := 0
		var inDays []int
		for k, dd := range days {
			mins := 1 << uint(k) // every subset of the records has its own sum
			fmt.Fprintf(&sb, "%s\n    %dm\n\n", ref.DateFromDays(dd), mins)
			if dd >= p.since && dd <= p.until {
				want += mins
				inDays = append(inDays, dd)
			}
		}
		text := sb.String()
		if err := os.WriteFile(file, []byte(text), 0644); err != nil {
			panic(err)
		}
		fa, _, ok := buildFilterArgs(query{Period: p.text, PeriodSince: p.since, PeriodUntil: p.until})
		if !ok {
			e.Violation("pattern-rejected: "+p.text[4:], fmt.Sprintf("the pattern %q denotes %s..%s but is rejected", p.text, fmtDays(p.since), fmtDays(p.until)), p.text)
			bad++
			continue
		}
		w := map[string]any{"file": text, "period": p.text, "denotes": fmtDays(p.since) + ".." + fmtDays(p.until)}
		n++
		tres := runRO(e, &cli.Total{FilterArgs: fa, DecimalArgs: util.DecimalArgs{Decimal: true}, WarnArgs: util.WarnArgs{NoWarn: true}, NoStyleArgs: util.NoStyleArgs{NoStyle: true}, InputFilesArgs: util.InputFilesArgs{File: files(file)}}, 1, "", "", clock)
		if tres.Panic != nil || tres.Err != nil {
			e.Violation("total-with-period-fails", fmt.Sprintf("klog total --period %s fails", p.text), w)
			bad++
			continue
		}
		if to, perr := parseTotalOutput(tres.Out); perr != nil || to.Total != strconv.Itoa(want) {
			w["output"] = tres.Out
			e.Violation("period-selects-other-days: total", fmt.Sprintf("klog total --period %s = %s minutes; the records dated inside %s..%s hold %d (one record per day around both ends, 2^k minutes each)", p.text, to.Total, fmtDays(p.since), fmtDays(p.until), want), w)
			bad++
			continue
		}
		for _, agg := range []string{"d", "w", "m", "q", "y"} {
			n++
			res := runRO(e, &cli.Report{AggregateBy: agg, FilterArgs: fa, DecimalArgs: util.DecimalArgs{Decimal: true}, WarnArgs: util.WarnArgs{NoWarn: true}, NoStyleArgs: util.NoStyleArgs{NoStyle: true}, InputFilesArgs: util.InputFilesArgs{File: files(file)}}, 1, "", "", clock)
			if res.Panic != nil || res.Err != nil {
				e.Violation("report-with-period-fails", fmt.Sprintf("klog report -a %s --period %s fails", agg, p.text), w)
				bad++
				break
			}
			firstIn := ref.DateFromDays(inDays[0])
			firstYear := firstIn.Y
			if agg == "w" {
				firstYear, _ = ref.ISOWeek(firstIn.Y, firstIn.M, firstIn.D)
			}
			rows, grand, perr := parseReport(res.Out, agg, false, firstYear)
			if perr != nil {
				w["output"] = res.Out
				e.Violation("report-output-malformed", fmt.Sprintf("klog report -a %s --period %s: %s", agg, p.text, perr.Error()), w)
				bad++
				break
			}
			var wantKeys []string
			for _, dd := range inDays {
				k, _ := periodKey(agg, ref.DateFromDays(dd))
				if len(wantKeys) == 0 || wantKeys[len(wantKeys)-1] != k {
					wantKeys = append(wantKeys, k)
				}
			}
			var gotKeys []string
			sum := 0
			for _, row := range rows {
				gotKeys = append(gotKeys, row.key)
				if len(row.values) > 0 {
					sum += row.values[0]
				}
			}
			if grand[0] != want || sum != want || fmt.Sprint(gotKeys) != fmt.Sprint(wantKeys) {
				w["output"] = res.Out
				e.Violation("period-selects-other-days: report -a "+agg, fmt.Sprintf("klog report -a %s --period %s: rows %v add up to %d, grand total %d; the records inside %s..%s hold %d minutes and fall into the buckets %v", agg, p.text, gotKeys, sum, grand[0], fmtDays(p.since), fmtDays(p.until), want, wantKeys), w)
				bad++
				break
			}
		}
		e.Count("period_patterns_viewed_through_total_and_report", 1)
	}
	return n
}

// c15BackwardWalks applies Previous() again and again, from the last period of the calendar down to the first: each
// result must end the day before its successor begins (a single Previous() being right does not imply that).
func c15BackwardWalks(e *core.Env) int64 {
	var n int64
	last := kdate(9999, 12, 31)
	type walker struct {
		name string
		kind ref.PeriodKind
		cur  func() period.Period
		prev func() bool // steps back; false if it panicked
	}
	wk, mo, qu, yr := period.NewWeekFromDate(last), period.NewMonthFromDate(last), period.NewQuarterFromDate(last), period.NewYearFromDate(last)
	ws := []walker{
		{"week", ref.PWeek, func() period.Period { return wk.Period() }, func() bool { return core.Guard(func() { wk = wk.Previous() }) == nil }},
		{"month", ref.PMonth, func() period.Period { return mo.Period() }, func() bool { return core.Guard(func() { mo = mo.Previous() }) == nil }},
		{"quarter", ref.PQuarter, func() period.Period { return qu.Period() }, func() bool { return core.Guard(func() { qu = qu.Previous() }) == nil }},
		{"year", ref.PYear, func() period.Period { return yr.Period() }, func() bool { return core.Guard(func() { yr = yr.Previous() }) == nil }},
	}
	for _, w := range ws {
		since := ref.DaysFromCivil(w.cur().Since().Year(), w.cur().Since().Month(), w.cur().Since().Day())
		steps := 0
		for {
			pu := since - 1
			if pu < ref.MinDay {
				break
			}
			ps, _ := ref.PeriodBounds(w.kind, ref.DateFromDays(pu))
			if ps < ref.MinDay || w.kind == ref.PWeek && pu-6 < ref.MinDay {
				break // the previous period sticks out of the calendar: not demanded
			}
			n++
			if !w.prev() {
				e.Violation(w.name+"-previous-panic", fmt.Sprintf("walking backwards: Previous() of the %s starting %s panicked (step %d)", w.name, fmtDays(since), steps+1), nil)
				break
			}
			var p period.Period
			if pi := core.Guard(func() { p = w.cur() }); pi != nil {
				e.Violation(w.name+"-previous-panic", fmt.Sprintf("walking backwards: Period() after %d steps panicked: %s", steps+1, pi.Value), nil)
				break
			}
			if !sameDate(p.Since(), ps) || !sameDate(p.Until(), pu) {
				e.Violation(w.name+"-previous-chain", fmt.Sprintf("walking backwards from 9999-12-31, step %d: the %s before the one starting %s is %s..%s, want %s..%s", steps+1, w.name, fmtDays(since), p.Since().ToString(), p.Until().ToString(), fmtDays(ps), fmtDays(pu)), nil)
				break
			}
			since = ps
			steps++
		}
		e.Count("backward_walk_steps_"+w.name, int64(steps))
	}
	return n
}

type c15hashes struct {
	day, week, month, quarter, year map[uint32]int // hash -> reference period id
}

func c15Year(e *core.Env, y int) int64 {
	var n int64
	viol := func(key, msg string, w any) { e.Violation(key, msg, w) }
	hs := c15hashes{map[uint32]int{}, map[uint32]int{}, map[uint32]int{}, map[uint32]int{}, map[uint32]int{}}
	first := ref.DaysFromCivil(y, 1, 1)
	last := ref.DaysFromCivil(y, 12, 31)
	// include one week of the neighbouring years so that hash collisions across the year boundary are seen
	from, to := first-7, last+7
	if from < ref.MinDay {
		from = ref.MinDay
	}
	if to > ref.MaxDay {
		to = ref.MaxDay
	}
	var prev klog.Date
	for days := from; days <= to; days++ {
		ry, rm, rd := ref.CivilFromDays(days)
		rdate := ref.Date{Y: ry, M: rm, D: rd}
		ds := ref.FormatDate(rdate, true)
		var d klog.Date
		if p := core.Guard(func() { d = kdate(ry, rm, rd) }); p != nil {
			viol("date-construct-panic", ds+": "+p.Value, ds)
			continue
		}
		inYear := days >= first && days <= last
		if inYear {
			n++
		}
		// successor relation
		if prev != nil {
			var nx klog.Date
			if p := core.Guard(func() { nx = prev.PlusDays(1) }); p != nil {
				viol("plusdays-panic", fmtDays(days-1)+"+1: "+p.Value, ds)
			} else if !sameDate(nx, days) {
				viol("plusdays", fmt.Sprintf("%s.PlusDays(1) = %s, want %s", fmtDays(days-1), nx.ToString(), ds), ds)
			}
		}
		prev = d
		if !inYear {
			// only feed the hash tables
			c15Hashes(e, d, rdate, ds, &hs, viol)
			continue
		}
		wantWd := ref.Weekday(days)
		wy, ww := ref.ISOWeek(ry, rm, rd)
		if p := core.Guard(func() {
			if got := d.Weekday(); got != wantWd {
				viol("weekday", fmt.Sprintf("%s: Weekday()=%d, want %d", ds, got, wantWd), ds)
			}
			gy, gw := d.WeekNumber()
			if gy != wy || gw != ww {
				viol("weeknumber", fmt.Sprintf("%s: WeekNumber()=(%d,%d), want (%d,%d)", ds, gy, gw, wy, ww), ds)
			}
			if got := d.Quarter(); got != ref.Quarter(rm) {
				viol("quarter", fmt.Sprintf("%s: Quarter()=%d, want %d", ds, got, ref.Quarter(rm)), ds)
			}
		}); p != nil {
			viol("date-accessor-panic: "+p.Site(), ds+": "+p.Value, ds)
		}
		boundary := false
		for _, kind := range []ref.PeriodKind{ref.PWeek, ref.PMonth, ref.PQuarter, ref.PYear} {
			ws, wu := ref.PeriodBounds(kind, rdate)
			if ws == days {
				boundary = true
			}
			name := [...]string{"day", "week", "month", "quarter", "year"}[kind]
			var per, prevPer period.Period
			havePrev := false
			if p := core.Guard(func() {
				switch kind {
				case ref.PWeek:
					per = period.NewWeekFromDate(d).Period()
				case ref.PMonth:
					per = period.NewMonthFromDate(d).Period()
				case ref.PQuarter:
					per = period.NewQuarterFromDate(d).Period()
				case ref.PYear:
					per = period.NewYearFromDate(d).Period()
				}
			}); p != nil {
				viol(name+"-period-panic: "+p.Site(), fmt.Sprintf("%s: %s period: panic %s", ds, name, p.Value), ds)
				continue
			}
			if !sameDate(per.Since(), ws) || !sameDate(per.Until(), wu) {
				viol(name+"-period-bounds", fmt.Sprintf("%s: %s period = %s..%s, want %s..%s", ds, name, per.Since().ToString(), per.Until().ToString(), fmtDays(ws), fmtDays(wu)), ds)
			}
			if !(d.IsAfterOrEqual(per.Since()) && per.Until().IsAfterOrEqual(d)) {
				viol(name+"-period-containment", fmt.Sprintf("%s not inside its %s period %s..%s", ds, name, per.Since().ToString(), per.Until().ToString()), ds)
			}
			// previous period: demanded where it is entirely representable
			pu := ws - 1
			if pu >= ref.MinDay {
				ps, _ := ref.PeriodBounds(kind, ref.DateFromDays(pu))
				unclamped := true
				if kind == ref.PWeek && pu-6 < ref.MinDay {
					unclamped = false
				}
				if unclamped {
					if p := core.Guard(func() {
						switch kind {
						case ref.PWeek:
							prevPer = period.NewWeekFromDate(d).Previous().Period()
						case ref.PMonth:
							prevPer = period.NewMonthFromDate(d).Previous().Period()
						case ref.PQuarter:
							prevPer = period.NewQuarterFromDate(d).Previous().Period()
						case ref.PYear:
							prevPer = period.NewYearFromDate(d).Previous().Period()
						}
						havePrev = true
					}); p != nil {
						viol(name+"-previous-panic: "+p.Site(), fmt.Sprintf("%s: previous %s: panic %s", ds, name, p.Value), ds)
					}
					if havePrev && (!sameDate(prevPer.Since(), ps) || !sameDate(prevPer.Until(), pu)) {
						viol(name+"-previous", fmt.Sprintf("%s: previous %s = %s..%s, want %s..%s", ds, name, prevPer.Since().ToString(), prevPer.Until().ToString(), fmtDays(ps), fmtDays(pu)), ds)
					}
				}
			}
		}
		c15Hashes(e, d, rdate, ds, &hs, viol)
		if boundary {
			e.Nontrivial(core.Hash64("date", ds))
		}
		if e.WantSample() && rd == 1 && rm == 1 {
			e.Sample(map[string]any{"date": ds, "weekday": wantWd, "iso_week": []int{wy, ww}, "checked": "weekday, ISO week, quarter, 4 periods, previous periods, 5 bucket hashes"})
		}
	}
	e.Count("dates", n)
	// patterns
	n += c15Patterns(e, y, viol)
	return n
}

func c15Hashes(e *core.Env, d klog.Date, rd ref.Date, ds string, hs *c15hashes, viol func(string, string, any)) {
	check := func(name string, table map[uint32]int, h uint32, id int) {
		if old, ok := table[h]; ok {
			if old != id {
				viol(name+"-hash-collision", fmt.Sprintf("%s: %s bucket hash %d is shared by two different %s periods", ds, name, h, name), ds)
			}
		} else {
			// a new hash must mean a new period: no other hash may already map to this period
			for oh, oid := range table {
				if oid == id && oh != h {
					viol(name+"-hash-split", fmt.Sprintf("%s: the %s period containing it has two different bucket hashes (%d, %d)", ds, name, oh, h), ds)
					break
				}
			}
			table[h] = id
			e.Count("distinct_"+name+"_buckets", 1)
		}
	}
	if p := core.Guard(func() {
		check("day", hs.day, uint32(period.NewDayFromDate(d).Hash()), ref.PeriodID(ref.PDay, rd))
		check("week", hs.week, uint32(period.NewWeekFromDate(d).Hash()), ref.PeriodID(ref.PWeek, rd))
		check("month", hs.month, uint32(period.NewMonthFromDate(d).Hash()), ref.PeriodID(ref.PMonth, rd))
		check("quarter", hs.quarter, uint32(period.NewQuarterFromDate(d).Hash()), ref.PeriodID(ref.PQuarter, rd))
		check("year", hs.year, uint32(period.NewYearFromDate(d).Hash()), ref.PeriodID(ref.PYear, rd))
	}); p != nil {
		viol("hash-panic: "+p.Site(), ds+": "+p.Value, ds)
	}
}

func c15Patterns(e *core.Env, y int, viol func(string, string, any)) int64 {
	var n int64
	try := func(pat string, ok bool, ws, wu int) {
		n++
		var per period.Period
		var err error
		if p := core.Guard(func() { per, err = period.NewPeriodFromPatternString(pat) }); p != nil {
			viol("pattern-panic: "+p.Site(), fmt.Sprintf("pattern %q: panic %s", pat, p.Value), pat)
			return
		}
		if ok {
			e.Nontrivial(core.Hash64("pattern", pat))
			if err != nil {
				viol("pattern-rejected", fmt.Sprintf("pattern %q denotes %s..%s but was rejected", pat, fmtDays(ws), fmtDays(wu)), pat)
				return
			}
			if !sameDate(per.Since(), ws) || !sameDate(per.Until(), wu) {
				viol("pattern-wrong-period", fmt.Sprintf("pattern %q = %s..%s, want %s..%s", pat, per.Since().ToString(), per.Until().ToString(), fmtDays(ws), fmtDays(wu)), pat)
			}
		} else if err == nil {
			viol("pattern-accepted", fmt.Sprintf("pattern %q denotes no period but was accepted as %s..%s", pat, per.Since().ToString(), per.Until().ToString()), pat)
		}
	}
	clamp := func(s, u int) (int, int) {
		if s < ref.MinDay {
			s = ref.MinDay
		}
		if u > ref.MaxDay {
			u = ref.MaxDay
		}
		return s, u
	}
	ys := fmt.Sprintf("%04d", y)
	// year
	try(ys, true, ref.DaysFromCivil(y, 1, 1), ref.DaysFromCivil(y, 12, 31))
	// months 00..99 (two digits) and one-digit forms
	for m := 0; m <= 99; m++ {
		pat := fmt.Sprintf("%s-%02d", ys, m)
		if m >= 1 && m <= 12 {
			try(pat, true, ref.DaysFromCivil(y, m, 1), ref.DaysFromCivil(y, m, ref.DaysInMonth(y, m)))
		} else {
			try(pat, false, 0, 0)
		}
	}
	for m := 0; m <= 9; m++ {
		try(fmt.Sprintf("%s-%d", ys, m), false, 0, 0) // YYYY-M is not a pattern
	}
	// quarters
	for q := 0; q <= 9; q++ {
		pat := fmt.Sprintf("%s-Q%d", ys, q)
		if q >= 1 && q <= 4 {
			try(pat, true, ref.DaysFromCivil(y, (q-1)*3+1, 1), ref.DaysFromCivil(y, q*3, ref.DaysInMonth(y, q*3)))
		} else {
			try(pat, false, 0, 0)
		}
	}
	// weeks, two-digit and one-digit spellings
	for w := 0; w <= 99; w++ {
		mon, ok := ref.ISOWeekMonday(y, w)
		s, u := clamp(mon, mon+6)
		if ok && mon > ref.MaxDay {
			ok = false
		}
		try(fmt.Sprintf("%s-W%02d", ys, w), ok, s, u)
		if w <= 9 {
			try(fmt.Sprintf("%s-W%d", ys, w), ok, s, u)
		}
	}
	// malformed shapes
	for _, pat := range []string{ys + "-", ys + "-Q", ys + "-W", ys + "-q1", ys + "-w01", ys + "-Q01", ys + "-W001", ys + "/01", ys + "-01-01",
		ys[1:], "0" + ys, ys + " ", " " + ys, ys + "-1a", ys + "-Qx", ys + "-Wxx", ys + "-13-", "-" + ys, ys + "-W1 ", ys + "Q1", ys + "W01"} {
		try(pat, false, 0, 0)
	}
	// digits of other scripts are not digits of a pattern: one digit of the year (or of the number) replaced by the
	// fullwidth / Arabic-Indic / Devanagari digit of the same value, in otherwise valid patterns
	foreign := func(text string, pos int) string {
		d := rune(text[pos] - '0')
		return text[:pos] + string([]rune{[]rune{0xFF10, 0x0660, 0x0966}[(y+pos)%3] + d}) + text[pos+1:]
	}
	fy := foreign(ys, y%4)
	for _, pat := range []string{fy, fy + "-03", fy + "-Q2", fy + "-W10", fy + "-W7", foreign(ys+"-03", 6), foreign(ys+"-Q2", 6), foreign(ys+"-W10", 6), foreign(ys+"-W10", 7)} {
		try(pat, false, 0, 0)
	}
	e.Count("patterns", n)
	return n
}
