package props

import (
	"fmt"
	"strings"
	"time"
	"unicode/utf8"

	"github.com/jotaen/klog/klog/app/cli"
	"github.com/jotaen/klog/klog/app/cli/util"
	"github.com/jotaen/klog/klog/parser"
	"verifharness/core"
	"verifharness/gen"
	"verifharness/obs"
	"verifharness/ref"
)

// C01 — the parser accepts exactly spec-conforming files and extracts the denoted data.

func c01Opts(r *core.Rand) gen.Opts {
	return gen.Opts{
		MaxRecs: 7, MaxEntries: 6, Unicode: r.Chance(1, 2), Tags: r.Intn(3), Hostile: r.Chance(2, 3), OpenRanges: 1,
		LookAlikes: r.Chance(1, 2), JSONHostile: r.Chance(1, 5), TrailingBlank: r.Chance(1, 3), MaxHours: r.PickInt(30, 30, 1000000),
	}
}

func init() {
	core.Register(&core.Prop{
		ID:    "C01",
		Level: "exploration",
		Rule: "even cases: a document is generated from an abstract record list (dates 0000-9999 boundary-biased, all entry kinds, shifts, 24:00 and 12-hour spellings, signed/zero/unnormalised durations, Unicode/tag/look-alike summaries, multi-line summaries) and rendered under a random admissible layout " +
			"(2/3/4 spaces or tab per record, LF/CRLF/mixed, blank-line runs incl. whitespace-only lines, with/without final newline); klog's serial and a parallel parser must return exactly the generating records. " +
			"odd cases: 1-3 rule-violating edits from a catalogue of 18 operators (bad dates, headline text, indentation faults, malformed values, reversed range, second/shifted open range, blank-led summary, blank line in record, stray text …) are applied; " +
			"a mutant is used only if the independent line automaton (harness/ref/recognise.go) judges it non-conforming; klog must return no records and at least one error. " +
			"non-trivial & distinct: hash set of documents with >=2 records, a shifted/24:00/12h time and a non-default layout, and of mutants per (operator, position class, layout class, text hash)",
		Assumptions: []string{
			"constructs the specification leaves open (tab after entry value, blanks around the should-total, Zs-only lines, lone CR, NUL) are never generated on either side",
		},
		Planned: func(tier string, seed uint64) int64 {
			if tier == "thorough" {
				return 3000000
			}
			return 60000
		},
		Run: runC01,
	})
}

func runC01(e *core.Env) {
	total := int64(e.N(60000, 3000000))
	for i := int64(0); i < total; i++ {
		if !e.Mine(i) {
			continue
		}
		r := core.NewRand(e.Seed, 1, uint64(i))
		doc := gen.Document(r, c01Opts(r))
		if k := core.Hash64("c01-straddle", fmt.Sprint(e.Seed, i)) % 6000; k < 2 && i%2 == 0 {
			// multi-byte characters across the offsets at which chunked readers cut (up to 1 MiB for k == 0)
			t := straddleText(r, map[bool]int{true: 1048576, false: 131072}[k == 0])
			if rec := ref.Recognise(t); rec.Verdict == ref.Conforming {
				doc = &gen.Out{Text: t, Doc: rec.Doc, Feat: map[string]bool{"chunk_boundary_characters": true}}
			}
		}
		if i%2 == 0 {
			e.Begin(i, []byte(doc.Text))
			c01Valid(e, r, doc)
			e.End(i)
			continue
		}
		// mutant
		text := doc.Text
		rules := ""
		k := r.PickInt(1, 1, 1, 2, 3)
		var first gen.Mutant
		okAll := true
		cur := doc
		for j := 0; j < k; j++ {
			m, ok := gen.Mutate(r, cur)
			if !ok {
				okAll = j > 0
				break
			}
			if j == 0 {
				first = m
			}
			text = m.Text
			rules += m.Rule + "+"
			if j+1 < k {
				// further edits are applied to fresh line info: regenerate layout info by treating the mutant as opaque text is not possible,
				// so multi-edit mutants concatenate an independently mutated second document
				r2 := core.NewRand(e.Seed, 1, uint64(i), uint64(j))
				d2 := gen.Document(r2, c01Opts(r2))
				m2, ok2 := gen.Mutate(r2, d2)
				if ok2 {
					sep := "\n\n"
					if len(text) > 0 && text[len(text)-1] != '\n' {
						sep = "\n\n"
					}
					text = text + sep + m2.Text
					rules += m2.Rule + "+"
				}
				break
			}
		}
		if !okAll || rules == "" {
			e.Count("mutation_not_applicable", 1)
			continue
		}
		e.Begin(i, []byte(text))
		c01Mutant(e, r, text, rules, first, doc)
		e.End(i)
	}
}

func c01Valid(e *core.Env, r *core.Rand, doc *gen.Out) {
	rec := ref.Recognise(doc.Text)
	if rec.Verdict != ref.Conforming {
		e.Inconclusive("harness: generator produced a text its own recogniser does not accept: " + rec.Rule)
		return
	}
	if d := ref.DiffDocs(doc.Doc, rec.Doc, true); d != "" {
		e.Inconclusive("harness: generator model and recogniser disagree: " + d)
		return
	}
	check := func(engine string, p parser.Parser) {
		var got *ref.Doc
		var nerr int
		var firstErr string
		if pi := core.Guard(func() {
			rs, _, errs := p.Parse(doc.Text)
			nerr = len(errs)
			if nerr > 0 {
				ei := obs.ErrorsOf(errs)
				firstErr = fmt.Sprintf("line %d: %s", ei[0].Line, ei[0].Title)
			} else {
				got = obs.DocOf(rs)
			}
		}); pi != nil {
			e.Violation("parse-panic: "+pi.Site(), fmt.Sprintf("%s parser panicked on a conforming text: %s", engine, pi.Value), map[string]any{"text": doc.Text})
			return
		}
		if nerr > 0 {
			e.Violation("conforming-text-rejected", fmt.Sprintf("%s parser rejected a conforming text (%d errors, first: %s)", engine, nerr, firstErr), map[string]any{"text": doc.Text})
			return
		}
		if d := ref.DiffDocs(doc.Doc, got, true); d != "" {
			e.Violation("wrong-data-extracted", fmt.Sprintf("%s parser: records differ from what the text denotes: %s", engine, d), map[string]any{"text": doc.Text})
		}
	}
	check("serial", parser.NewSerialParser())
	n := r.Range(2, 9)
	check(fmt.Sprintf("parallel(%d)", n), parser.NewParallelParser(n))
	if (core.Hash64("c01-stdin", doc.Text)%20 == 0 || doc.Feat["chunk_boundary_characters"]) && doc.Text != "" && !strings.Contains(doc.Text, "\x00") { // (an empty pipe is no input at all)
		// the whole program: the same text piped into the real binary must be accepted and denote the same data
		how := "printf TEXT | klog json"
		get := func() ([]any, int, bool, string, bool) { return stdinJSON(e, doc.Text) }
		if len(doc.Text)%3 == 0 || doc.Feat["chunk_boundary_characters"] {
			how = "klog json FILE"
			get = func() ([]any, int, bool, string, bool) { return fileJSON(e, doc.Text) }
		}
		if recs, nerr, _, crash, ok := get(); ok {
			w := map[string]any{"text": trunc(doc.Text, 4000), "how": how}
			if crash != "" {
				e.Violation("binary-crash", "real binary ("+how+"): "+crash, w)
				return
			}
			if nerr > 0 {
				e.Violation("conforming-text-rejected", fmt.Sprintf("real binary (%s): a conforming text is rejected with %d errors", how, nerr), w)
				return
			}
			want := make([]expectedRec, len(doc.Doc.Recs))
			for i := range doc.Doc.Recs {
				want[i] = expectedRec{Rec: &doc.Doc.Recs[i], ClosedEnd: -1}
			}
			if diff := compareJSONRecords(recs, want, true, utf8.ValidString(doc.Text)); diff != "" {
				e.Violation("wrong-data-extracted", "real binary ("+how+"): "+diff, w)
				return
			}
			e.Count("conforming_documents_also_piped_into_the_binary", 1)
		}
	}
	// `klog print FILE` (warnings and all) ends with status 0 for a conforming file
	edge := false
	for i := range doc.Doc.Recs {
		if dd := doc.Doc.Recs[i].Date.Days(); dd-ref.MinDay <= 1 || ref.MaxDay-dd <= 1 {
			edge = true
		}
	}
	if (edge || core.Hash64("c01-print", doc.Text)%5 == 0) && !strings.Contains(doc.Text, "\x00") && len(doc.Text) < 20000 {
		f := writeFile(e.Dir, "c01print.klg", doc.Text)
		res := runRO(e, &cli.Print{InputFilesArgs: util.InputFilesArgs{File: files(f)}}, 1, "", "", time.Date(2024, 3, 15, 12, 0, 0, 0, time.UTC))
		w := map[string]any{"text": trunc(doc.Text, 4000), "how": "klog print FILE"}
		if res.Panic != nil {
			e.Violation("print-crash: "+res.Panic.Site(), "`klog print FILE` crashes on a conforming file (exit status 2): "+res.Panic.Value, w)
			return
		}
		if res.Err != nil {
			e.Violation("conforming-text-rejected", fmt.Sprintf("`klog print FILE` ends with an error (status %d) on a conforming file: %s", res.Err.Code().ToInt(), res.Err.Error()), w)
			return
		}
		e.Count("conforming_documents_also_printed", 1)
	}
	e.Count("conforming_documents", 1)
	if len(doc.Doc.Recs) >= 2 && (doc.Feat["shifted"] || doc.Feat["h24_00"] || doc.Feat["h12"]) && (doc.Feat["crlf"] || doc.Feat["ws_only_lines"] || doc.Feat["no_final_newline"] || doc.Feat["mixed_eol"]) {
		e.Nontrivial(core.Hash64("doc", doc.Text))
	}
	for f := range doc.Feat {
		e.Count("feature_"+f, 1)
	}
	if e.WantSample() && len(doc.Doc.Recs) >= 2 && len(doc.Text) < 600 {
		e.Sample(map[string]any{"kind": "conforming", "text": doc.Text})
	}
}

func c01Mutant(e *core.Env, r *core.Rand, text, rules string, first gen.Mutant, doc *gen.Out) {
	rec := ref.Recognise(text)
	if rec.Verdict != ref.NonConforming {
		e.Count("mutants_discarded_"+rec.Verdict.String(), 1)
		// nothing is demanded about WHETHER such a text is accepted - but if it is, the records returned have to be
		// complete values (every entry readable), and the call must come back
		for _, p := range []parser.Parser{parser.NewSerialParser(), parser.NewParallelParser(3)} {
			if pi := core.Guard(func() {
				if rs, _, errs := p.Parse(text); errs == nil {
					_ = obs.DocOf(rs)
				}
			}); pi != nil {
				e.Violation("parse-panic: "+pi.Site(), fmt.Sprintf("parsing / reading the returned records of a text the reference leaves undecided panicked: %s", pi.Value), map[string]any{"text": text})
				return
			}
		}
		return
	}
	check := func(engine string, p parser.Parser) {
		var nrec, nerr int
		if pi := core.Guard(func() {
			rs, _, errs := p.Parse(text)
			nrec, nerr = len(rs), len(errs)
		}); pi != nil {
			e.Violation("parse-panic: "+pi.Site(), fmt.Sprintf("%s parser panicked: %s", engine, pi.Value), map[string]any{"text": text})
			return
		}
		if nerr == 0 || nrec != 0 {
			e.Violation("nonconforming-text-accepted: "+rec.Rule, fmt.Sprintf("%s parser returned %d records and %d errors for a text that breaks a MUST rule at line %d (%s; operator %s)", engine, nrec, nerr, rec.BadLine+1, rec.Rule, rules),
				map[string]any{"text": text, "rule": rec.Rule, "line": rec.BadLine + 1})
		}
	}
	check("serial", parser.NewSerialParser())
	n := r.Range(2, 9)
	check(fmt.Sprintf("parallel(%d)", n), parser.NewParallelParser(n))
	if core.Hash64("c01-stdin", text)%20 == 0 && !strings.Contains(text, "\x00") {
		if _, nerr, rnull, crash, ok := stdinJSON(e, text); ok {
			w := map[string]any{"text": text, "rule": rec.Rule, "line": rec.BadLine + 1, "how": "printf TEXT | klog json"}
			if crash != "" {
				e.Violation("stdin-crash", "text on the standard input of the real binary: "+crash, w)
				return
			}
			if nerr == 0 || !rnull {
				e.Violation("nonconforming-text-accepted: "+rec.Rule, fmt.Sprintf("real binary, text on standard input: %d errors, records null=%v, for a text that breaks a MUST rule at line %d (%s; operator %s)", nerr, rnull, rec.BadLine+1, rec.Rule, rules), w)
				return
			}
			e.Count("mutants_also_piped_into_the_binary", 1)
		}
	}
	if core.Hash64("c01-print", text)%5 == 0 && !strings.Contains(text, "\x00") && len(text) < 20000 {
		f := writeFile(e.Dir, "c01print.klg", text)
		res := runRO(e, &cli.Print{InputFilesArgs: util.InputFilesArgs{File: files(f)}}, 1, "", "", time.Date(2024, 3, 15, 12, 0, 0, 0, time.UTC))
		w := map[string]any{"text": text, "rule": rec.Rule, "line": rec.BadLine + 1, "how": "klog print FILE"}
		if res.Panic != nil {
			e.Violation("print-crash: "+res.Panic.Site(), "`klog print FILE` crashes: "+res.Panic.Value, w)
			return
		}
		if res.Err == nil {
			e.Violation("nonconforming-text-accepted: "+rec.Rule, fmt.Sprintf("`klog print FILE` ends with status 0 for a text that breaks a MUST rule at line %d (%s; operator %s)", rec.BadLine+1, rec.Rule, rules), w)
			return
		}
		e.Count("mutants_also_printed", 1)
	}
	e.Count("mutants", 1)
	e.Count("mutant_rule_"+rec.Rule, 1)
	layoutClass := ""
	for _, f := range []string{"crlf", "mixed_eol", "no_final_newline", "ws_only_lines"} {
		if doc.Feat[f] {
			layoutClass += f + ","
		}
	}
	e.Nontrivial(core.Hash64("mutant", rules, first.PosClass, layoutClass, text))
	e.Distinct("mutant_classes", core.Hash64(rules, first.PosClass, layoutClass))
	if e.WantSample() && len(text) < 400 {
		e.Sample(map[string]any{"kind": "mutant", "operator": rules, "broken_rule": rec.Rule, "line": rec.BadLine + 1, "text": text})
	}
}
