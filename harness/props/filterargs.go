package props

import (
	"strings"

	"github.com/jotaen/klog/klog"
	"github.com/jotaen/klog/klog/app/cli/util"
	"github.com/jotaen/klog/klog/service"
	"github.com/jotaen/klog/klog/service/period"
	"verifharness/ref"
)

func kdateOf(d *ref.Date) klog.Date {
	if d == nil {
		return nil
	}
	return kdate(d.Y, d.M, d.D)
}

// buildFilterArgs converts a reference query into klog's argument structs the way kong's decoders would.
// ok=false means a value could not be decoded (then the CLI path must reject the invocation).
func buildFilterArgs(q query) (f util.FilterArgs, s util.SortArgs, ok bool) {
	ok = true
	f.Date, f.Since, f.Until, f.After, f.Before = kdateOf(q.Date), kdateOf(q.Since), kdateOf(q.Until), kdateOf(q.After), kdateOf(q.Before)
	if q.Period != "" {
		p, err := period.NewPeriodFromPatternString(q.Period)
		if err != nil {
			return f, s, false
		}
		f.Period = p
	}
	for _, a := range q.TagArgs {
		t, err := klog.NewTagFromString(a)
		if err != nil {
			return f, s, false
		}
		f.Tags = append(f.Tags, t)
	}
	if q.EntryType != "" {
		f.EntryType = service.EntryType(strings.ReplaceAll(strings.ToUpper(q.EntryType), "-", "_"))
	}
	switch q.Shortcut {
	case "today":
		f.Today = true
	case "yesterday":
		f.Yesterday = true
	case "tomorrow":
		f.Tomorrow = true
	case "this-week":
		f.ThisWeek = true
	case "thisweek":
		f.ThisWeekAlias = true
	case "last-week":
		f.LastWeek = true
	case "lastweek":
		f.LastWeekAlias = true
	case "this-month":
		f.ThisMonth = true
	case "thismonth":
		f.ThisMonthAlias = true
	case "last-month":
		f.LastMonth = true
	case "lastmonth":
		f.LastMonthAlias = true
	case "this-quarter":
		f.ThisQuarter = true
	case "thisquarter":
		f.ThisQuarterAlias = true
	case "last-quarter":
		f.LastQuarter = true
	case "lastquarter":
		f.LastQuarterAlias = true
	case "this-year":
		f.ThisYear = true
	case "thisyear":
		f.ThisYearAlias = true
	case "last-year":
		f.LastYear = true
	case "lastyear":
		f.LastYearAlias = true
	}
	s.Sort = q.Sort
	return
}
