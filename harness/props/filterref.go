package props

import (
	"unicode"
	"fmt"
	"sort"
	"strings"

	"verifharness/core"
	"verifharness/ref"
)

// query is a reference-side description of filter/sort flags.
type query struct {
	Date, Since, Until, After, Before *ref.Date
	Period                           string // pattern string for --period
	PeriodSince, PeriodUntil         int    // day numbers of the period (valid if Period != "")
	Shortcut                         string // today, yesterday, tomorrow, this-week, last-week, … (with or without dash)
	Tags                             []ref.Tag
	TagArgs                          []string // spelling passed on the command line
	EntryType                        string   // range, open-range, duration, duration-positive, duration-negative
	Sort                             string   // "", asc, desc
}

func (q query) String() string { return strings.Join(q.Args(), " ") }

// cliOK tells whether the query can be typed on the command line: `--tag` takes a comma-separated list in which `\,`
// stands for a comma, so a value that contains a backslash directly in front of a comma cannot be expressed.
func (q query) cliOK() bool {
	for _, t := range q.TagArgs {
		if strings.Contains(t, "\\,") {
			return false
		}
	}
	return true
}

// Args renders the command-line flags.
func (q query) Args() []string {
	var a []string
	add := func(flag string, d *ref.Date) {
		if d != nil {
			a = append(a, flag, ref.FormatDate(*d, true))
		}
	}
	add("--date", q.Date)
	add("--since", q.Since)
	add("--until", q.Until)
	add("--after", q.After)
	add("--before", q.Before)
	if q.Period != "" {
		a = append(a, "--period", q.Period)
	}
	if q.Shortcut != "" {
		a = append(a, "--"+q.Shortcut)
	}
	for _, t := range q.TagArgs {
		a = append(a, "--tag", strings.ReplaceAll(t, ",", "\\,")) // the flag takes a comma-separated list: a comma inside a value is typed as \,
	}
	if q.EntryType != "" {
		a = append(a, "--entry-type", q.EntryType)
	}
	if q.Sort != "" {
		a = append(a, "--sort", q.Sort)
	}
	return a
}

// dateBounds returns the inclusive day-number window of all date clauses given `today`.
func (q query) dateBounds(today ref.Date) (lo, hi int, exact *int) {
	lo, hi = -1<<60, 1<<60
	narrow := func(l, h int) {
		if l > lo {
			lo = l
		}
		if h < hi {
			hi = h
		}
	}
	if q.Since != nil {
		narrow(q.Since.Days(), 1<<60)
	}
	if q.Until != nil {
		narrow(-1<<60, q.Until.Days())
	}
	if q.After != nil {
		narrow(q.After.Days()+1, 1<<60)
	}
	if q.Before != nil {
		narrow(-1<<60, q.Before.Days()-1)
	}
	if q.Period != "" {
		narrow(q.PeriodSince, q.PeriodUntil)
	}
	if q.Date != nil {
		d := q.Date.Days()
		exact = &d
	}
	sc := strings.ReplaceAll(q.Shortcut, "-", "")
	td := today.Days()
	kindOf := map[string]ref.PeriodKind{"week": ref.PWeek, "month": ref.PMonth, "quarter": ref.PQuarter, "year": ref.PYear}
	switch {
	case sc == "today":
		exact = &td
	case sc == "yesterday":
		d := td - 1
		exact = &d
	case sc == "tomorrow":
		d := td + 1
		exact = &d
	case strings.HasPrefix(sc, "this"):
		s, u := ref.PeriodBounds(kindOf[sc[4:]], today)
		narrow(s, u)
	case strings.HasPrefix(sc, "last"):
		s, _ := ref.PeriodBounds(kindOf[sc[4:]], today)
		ps, pu := ref.PeriodBounds(kindOf[sc[4:]], ref.DateFromDays(s-1))
		narrow(ps, pu)
	}
	return
}

// apply computes the expected selection. undecided is set when the query touches a case the property leaves open
// (a 0m duration under duration-positive/negative).
func (q query) apply(doc *ref.Doc, today ref.Date) (out []expectedRec, undecided bool) {
	lo, hi, exact := q.dateBounds(today)
	for i := range doc.Recs {
		r := &doc.Recs[i]
		d := r.Date.Days()
		if d < lo || d > hi || (exact != nil && d != *exact) {
			continue
		}
		idxs := make([]int, 0, len(r.Entries))
		for k := range r.Entries {
			idxs = append(idxs, k)
		}
		if len(q.Tags) > 0 {
			rt, _ := ref.ScanSummaryTags(r.Summary)
			if !ref.MatchesAll(ref.TagKeys(rt), q.Tags) {
				var keep []int
				for _, k := range idxs {
					et, _ := ref.ScanSummaryTags(r.Entries[k].Summary)
					if ref.MatchesAll(ref.TagKeys(append(append([]ref.Tag{}, rt...), et...)), q.Tags) {
						keep = append(keep, k)
					}
				}
				if len(keep) == 0 {
					continue
				}
				idxs = keep
			}
		}
		if q.EntryType != "" {
			var keep []int
			for _, k := range idxs {
				en := &r.Entries[k]
				match := false
				switch strings.ReplaceAll(strings.ToLower(q.EntryType), "_", "-") {
				case "range":
					match = en.Kind == ref.KRange
				case "open-range":
					match = en.Kind == ref.KOpen
				case "duration":
					match = en.Kind == ref.KDur
				case "duration-positive":
					match = en.Kind == ref.KDur && en.Dur.Mins >= 0
					if en.Kind == ref.KDur && en.Dur.Mins == 0 {
						undecided = true
					}
				case "duration-negative":
					match = en.Kind == ref.KDur && en.Dur.Mins < 0
					if en.Kind == ref.KDur && en.Dur.Mins == 0 {
						undecided = true
					}
				}
				if match {
					keep = append(keep, k)
				}
			}
			if len(keep) == 0 {
				continue
			}
			idxs = keep
		}
		out = append(out, expectedRec{Rec: r, ClosedEnd: -1, Entries: idxs})
	}
	if q.Sort != "" {
		asc := strings.EqualFold(q.Sort, "asc")
		sort.SliceStable(out, func(a, b int) bool {
			if asc {
				return out[a].Rec.Date.Days() < out[b].Rec.Date.Days()
			}
			return out[a].Rec.Date.Days() > out[b].Rec.Date.Days()
		})
	}
	return
}

// hasTagAmbiguity tells whether any summary of the document contains a tag construct the spec leaves open.
func hasTagAmbiguity(doc *ref.Doc) bool {
	for i := range doc.Recs {
		if _, a := ref.ScanSummaryTags(doc.Recs[i].Summary); a {
			return true
		}
		for k := range doc.Recs[i].Entries {
			if _, a := ref.ScanSummaryTags(doc.Recs[i].Entries[k].Summary); a {
				return true
			}
		}
	}
	return false
}

// docTags lists the tags present in a document (for deriving queries).
func docTags(doc *ref.Doc) []ref.Tag {
	var out []ref.Tag
	for i := range doc.Recs {
		t, _ := ref.ScanSummaryTags(doc.Recs[i].Summary)
		out = append(out, t...)
		for k := range doc.Recs[i].Entries {
			t, _ := ref.ScanSummaryTags(doc.Recs[i].Entries[k].Summary)
			out = append(out, t...)
		}
	}
	return out
}

// genTagQuery derives a tag query from the tags present, with case / value changes.
func genTagQuery(r *core.Rand, present []ref.Tag) (ref.Tag, string) {
	var t ref.Tag
	if len(present) > 0 && !r.Chance(1, 6) {
		t = present[r.Intn(len(present))]
	} else {
		t = ref.Tag{Name: r.Pick("work", "nothere", "a", "dup"), Value: r.Pick("", "", "1")}
	}
	switch r.Intn(6) {
	case 0:
		t.Value = "" // bare name matches any value
	case 1:
		if t.Value != "" {
			t.Value = strings.ToUpper(t.Value) // values are case-sensitive
			if strings.ContainsAny(t.Value, "\"'") {
				t.Value = "X"
			}
		}
	case 2:
		t.Value = r.Pick("1", "2", "891", "v", "V")
	}
	// spelling on the command line: optional '#', name in arbitrary case
	name := t.Name
	if r.Bool() {
		name = strings.ToUpper(name)
	}
	if strings.ToLower(name) != t.Name { // case mapping not reversible for this name: keep as is
		name = t.Name
	}
	arg := name
	if r.Bool() {
		arg = "#" + arg
	}
	if t.Value != "" {
		plain := true
		for _, c := range t.Value {
			if !(c == '_' || c == '-' || (c >= '0' && c <= '9') || (c >= 'a' && c <= 'z') || (c >= 'A' && c <= 'Z') || (c > 127 && unicode.IsLetter(c))) { // what an unquoted value may consist of
				plain = false
			}
		}
		switch {
		case plain && r.Bool():
			arg += "=" + t.Value
		case strings.Contains(t.Value, `"`):
			arg += "='" + t.Value + "'"
		default:
			arg += `="` + t.Value + `"`
		}
	}
	return t, arg
}

func dateOfRecOrNear(r *core.Rand, doc *ref.Doc) ref.Date {
	if len(doc.Recs) == 0 {
		return ref.Date{Y: 2024, M: 3, D: 15}
	}
	d := doc.Recs[r.Intn(len(doc.Recs))].Date
	days := d.Days() + r.PickInt(0, 0, 0, -1, 1, -7, 30)
	if days < ref.MinDay+1 {
		days = ref.MinDay + 1
	}
	if days > ref.MaxDay-1 {
		days = ref.MaxDay - 1
	}
	return ref.DateFromDays(days)
}

func fmtSel(sel []expectedRec) string {
	var sb strings.Builder
	for _, s := range sel {
		fmt.Fprintf(&sb, "%s%v ", ref.FormatDate(s.Rec.Date, true), s.Entries)
	}
	return sb.String()
}
