package props

import (
	"fmt"
	"os"
	"os/exec"
	"path/filepath"
	"sort"
	"strings"
	"syscall"
	"time"

	"verifharness/core"
	"verifharness/gen"
	"verifharness/obs"
	"verifharness/ref"
)

// C05 — a mutating command either leaves a valid file or leaves the file untouched.

var c05RequiredCells = []string{
	"unparseable-target/track", "unparseable-target/start", "unparseable-target/stop", "unparseable-target/switch", "unparseable-target/pause", "unparseable-target/create",
	"missing-file/track", "missing-file/start", "missing-file/stop", "missing-file/switch", "missing-file/pause", "missing-file/create",
	"no-record/stop", "no-record/switch", "no-record/pause",
	"no-open-range/stop", "no-open-range/switch", "no-open-range/pause",
	"end-before-start/stop", "end-before-start/switch",
	"second-open-range/start", "second-open-range/track",
	"not-an-entry/track",
	"resume-nth-out-of-range/start", "conflicting-flags/start",
	"step2-fails-after-step1-ok/switch",
	"extend-conflicts-with-summary/pause", "nothing-to-extend/pause",
	"time-not-representable/start", "time-not-representable/stop",
	"missing-time/start", "missing-time/stop", "missing-time/switch",
	"invalid-record-summary/create",
	"success/track", "success/start", "success/stop", "success/switch", "success/pause", "success/create",
}

func init() {
	core.Register(&core.Prop{
		ID:    "C05",
		Level: "fault_enumeration",
		Rule: "fault table {failure cause} x {command}: unparseable target (rule-violating mutants), missing file, no record for the date, no open range, end before start, second open range via start and via track '8:00-?', track text that is not an entry / a date / garbage, " +
			"--resume-nth out of range, --summary with --resume, switch whose second step fails after the first succeeded in memory, pause --extend with --summary / with nothing to extend, clock-derived time not representable relative to the target record, missing --time for a far date, " +
			"create --summary with leading blank - plus the succeeding variant of every command. cases are drawn from generated hostile files near the virtual today with random and directed commands; the cell of a case is named by the abstract edit model, and a run in which a required cell was never observed is incomplete (exit 2). " +
			"oracle (independent of the model): success reported => the file on disk is accepted by klog's parser AND by the independent line automaton (conforming or undecided); failure reported => exit status != 0, bytes identical, same inode, same mtime (a write-then-restore would change it), no panic. " +
			"for a sample the same case runs as the real binary under `strace -f -e trace=openat,rename*,unlink*,truncate,ftruncate`: a failing command must never open the target for writing, rename onto it, unlink or truncate it; a succeeding one opens it for writing (once per reconcile) and exits 0. " +
			"non-trivial & distinct = (cell, file, command) triples, by hash",
		Assumptions: []string{"I/O faults (ENOSPC, EACCES on write) are not injected: the property's failure kinds are logical ones and os.WriteFile is not atomic by design"},
		Planned:     func(tier string, seed uint64) int64 { return map[string]int64{"quick": 9000, "thorough": 400000}[tier] },
		Finish: func(agg *core.Aggregate) {
			var missing []string
			for _, c := range c05RequiredCells {
				if agg.Counters["cell_"+c] == 0 {
					missing = append(missing, c)
				}
			}
			if len(missing) > 0 {
				agg.Problems = append(agg.Problems, "fault table incomplete, cells never observed: "+strings.Join(missing, ", "))
			}
		},
		Run: runC05,
	})
}

// c05Cell names the fault-table cell of a case.
func c05Cell(c MCmd, o Outcome, special string) string {
	if special != "" {
		return special + "/" + c.Kind
	}
	if o.Undecided != "" {
		return ""
	}
	if o.OK {
		return "success/" + c.Kind
	}
	w := o.Why
	switch {
	case strings.HasPrefix(w, "no record"):
		return "no-record/" + c.Kind
	case w == "no open range":
		return "no-open-range/" + c.Kind
	case w == "end before start":
		return "end-before-start/" + c.Kind
	case w == "record already has an open range", w == "second open range":
		return "second-open-range/" + c.Kind
	case strings.HasPrefix(w, "text is not an entry"), w == "blank continuation line":
		return "not-an-entry/" + c.Kind
	case w == "no such entry to resume":
		if c.Kind == "switch" {
			return "step2-fails-after-step1-ok/switch"
		}
		return "resume-nth-out-of-range/" + c.Kind
	case strings.Contains(w, "conflicts with --resume"):
		if c.Kind == "switch" {
			return "step2-fails-after-step1-ok/switch"
		}
		return "conflicting-flags/" + c.Kind
	case w == "--extend conflicts with --summary":
		return "extend-conflicts-with-summary/pause"
	case w == "no pause to extend":
		return "nothing-to-extend/pause"
	case strings.Contains(w, "not representable"):
		return "time-not-representable/" + c.Kind
	case strings.HasPrefix(w, "no time given"):
		return "missing-time/" + c.Kind
	case strings.HasPrefix(w, "record summary line"):
		return "invalid-record-summary/create"
	}
	return "other:" + w + "/" + c.Kind
}

func runC05(e *core.Env) {
	total := int64(e.N(9000, 400000))
	straceEvery := int64(e.N(30, 40))
	for i := int64(0); i < total; i++ {
		if !e.Mine(i) {
			continue
		}
		r := core.NewRand(e.Seed, 5, uint64(i))
		today := ref.Date{Y: r.PickInt(2024, 2023, 2030), M: r.Range(1, 12), D: r.Range(2, 28)}
		if r.Chance(1, 10) {
			today = obs.DSTDates[r.Intn(len(obs.DSTDates))]
		}
		d := gen.Document(r, gen.Opts{MaxRecs: 6, MinRecs: 1, MaxEntries: 4, Near: &today, NearSpread: r.PickInt(1, 1, 2, 4), Sorted: r.Chance(2, 3), NoDupDates: r.Chance(1, 2), Hostile: true, OpenRanges: 1,
			Tags: 1, Unicode: r.Chance(1, 3), LookAlikes: r.Chance(1, 2), TrailingBlank: r.Chance(1, 2), MaxHours: 12})
		env := genEnv(r, today)
		cmd := genLikelyCommand(r, d.Doc, env, true)
		text := d.Text
		special := ""
		exists := true
		// directed scenarios
		switch i % 16 { // 12 directed scenarios, 4 of 16 cases stay with the generated command
		case 0:
			if r.Chance(1, 4) && len(d.Doc.Recs) > 0 {
				// the only fault sits at the very start or at the very end of the file
				t2 := r.Pick(" ", "\t", "\u00a0") + strings.TrimLeft(d.Text, " \t\r\n")
				if r.Bool() {
					t2 = strings.TrimRight(d.Text, " \t\r\n") + "\n\n" + r.Pick("\f", "\v", "\u00a0", "x") + r.Pick("", "\n")
				}
				if ref.Recognise(t2).Verdict == ref.NonConforming {
					text, special = t2, "unparseable-target"
				}
			} else if m, ok := gen.Mutate(r, d); ok && ref.Recognise(m.Text).Verdict == ref.NonConforming {
				text, special = m.Text, "unparseable-target"
				if r.Chance(1, 5) {
					// ... together with arguments for which a command might be tempted to do nothing at all
					cmd = MCmd{Kind: "track", Entry: []string{r.Pick(" ", "\t", "  ")}}
					c05AimDate(r, &cmd, d.Doc)
				}
			}
		case 1:
			exists, special = false, "missing-file"
		case 2: // switch whose second step fails
			cmd = MCmd{Kind: "switch", ResumeNth: r.PickInt(40, -40)}
			if r.Bool() {
				cmd = MCmd{Kind: r.Pick("switch", "switch", "start"), Summary: []string{"x"}, Resume: true}
			}
			c05AimAtOpen(r, &cmd, d.Doc, env)
		case 3:
			cmd = MCmd{Kind: "start", DateFlag: r.Pick("yesterday", "yesterday", ""), Round: r.PickInt(30, 60, 15)}
			if cmd.DateFlag == "" {
				dd := today.Plus(-1)
				cmd.Date = &dd
			}
			env.Minute = r.Range(1436, 1439)
		case 4:
			cmd = MCmd{Kind: r.Pick("start", "stop", "switch")}
			dd := today.Plus(r.PickInt(-30, -2, 2, 30))
			if len(d.Doc.Recs) > 0 && r.Bool() {
				dd = d.Doc.Recs[r.Intn(len(d.Doc.Recs))].Date
			}
			cmd.Date = &dd
		case 5:
			cmd = MCmd{Kind: "pause", Extend: true, Ticks: []int{r.Range(0, 200)}}
			if r.Bool() {
				cmd.Summary = []string{"x"}
			}
		case 6:
			cmd = MCmd{Kind: "create", RecSummary: []string{r.Pick(" x", "\tx", " nbsp", "")}, DateFlag: r.Pick("", "tomorrow")}
			if cmd.RecSummary[0] == "" {
				cmd.RecSummary = []string{"ok", " second line blank-led"}
			}
		case 7: // stop at a time that rounds to midnight with the open range only yesterday
			cmd = MCmd{Kind: "stop", Round: r.PickInt(30, 60)}
			env.Minute = r.Range(1436, 1439)
		case 8:
			cmd = MCmd{Kind: "track", Entry: []string{r.Pick("8:00-?", "9:00 - ??? again", "garbage", "2024-01-01", "1h60m", "8:00 - 7:00")}}
			c05AimDate(r, &cmd, d.Doc)
		case 9: // should-totals at and beyond the edge of what a duration can hold (the decoder gives up on some of them)
			cmd = MCmd{Kind: "create", ShouldText: r.Pick("99999999999999999999h!", "153722867280912931h!", "9223372036854775807m!", "-99999999999999999999m!", "1h60m!", "8h", "0m!", "!", "153722867280912930h7m!")}
			c05AimDate(r, &cmd, d.Doc)
			special = "edge-should-total"
		case 11: // while `klog pause` is ticking, somebody else leaves the file unparseable: pause must not end with a success
			cmd = MCmd{Kind: "pause", Ticks: []int{0, 61, 125, 190}, Sabotage: r.PickInt(2, 3)}
			special = "file-broken-by-someone-else-during-pause"
		case 10: // the one file-writing command outside the reconciler: it must not harm a file that is already there
			cmd = MCmd{Kind: "bookmarks"}
			special = "bookmark-create"
			if r.Chance(1, 4) {
				exists = false
			}
		}
		file := filepath.Join(e.Dir, "c05 target.klg")
		_ = os.Remove(file)
		if exists {
			if err := os.WriteFile(file, []byte(text), 0644); err != nil {
				panic(err)
			}
		}
		var out Outcome
		if special == "" {
			out = applyModel(d.Doc, cmd, env)
		}
		cell := c05Cell(cmd, out, special)
		e.Begin(i, []byte(fmt.Sprintf("cell=%s clock=%s cmd=%s\n%s", cell, env.Clock().Format("2006-01-02T15:04:05"), cmd.String(), text)))
		c05Check(e, r, i, file, text, exists, cmd, env, cell, int64(core.Hash64("c05-strace", fmt.Sprint(i))%uint64(straceEvery)) == 0)
		e.End(i)
	}
}

func c05AimAtOpen(r *core.Rand, c *MCmd, doc *ref.Doc, env MEnv) {
	for i := range doc.Recs {
		if oi := doc.Recs[i].OpenIndex(); oi >= 0 {
			d := doc.Recs[i].Date
			c.Date = &d
			end := doc.Recs[i].Entries[oi].Start.Off + r.PickInt(0, 5, 100)
			if end > 2879 {
				end = 2879
			}
			t := ref.TimeV{Off: end}
			c.Time, c.TimeText = &t, ref.FormatTime(t)
			return
		}
	}
}

func c05AimDate(r *core.Rand, c *MCmd, doc *ref.Doc) {
	if len(doc.Recs) > 0 && r.Chance(3, 4) {
		d := doc.Recs[r.Intn(len(doc.Recs))].Date
		c.Date = &d
	}
}

type fileID struct {
	exists bool
	ino    uint64
	mtime  time.Time
	size   int64
}

func statID(p string) fileID {
	st, err := os.Stat(p)
	if err != nil {
		return fileID{}
	}
	id := fileID{exists: true, mtime: st.ModTime(), size: st.Size()}
	if s, ok := st.Sys().(*syscall.Stat_t); ok {
		id.ino = s.Ino
	}
	return id
}

func c05Check(e *core.Env, r *core.Rand, idx int64, file, text string, exists bool, cmd MCmd, env MEnv, cell string, withStrace bool) {
	w := map[string]any{"file_before": text, "file_existed": exists, "command": cmd.String(), "clock": env.Clock().Format("2006-01-02T15:04:05"), "config": env.ConfigFile(), "cell": cell}
	before := statID(file)
	viaCLI := core.Hash64("c05-cli", fmt.Sprint(idx))%3 == 0 || cmd.ShouldText != "" || cmd.Kind == "bookmarks"
	var lockHolder *os.File
	if idx%7 == 3 && exists {
		// somebody else (a backup tool, an editor, a second klog) holds an advisory lock on the target while the command runs
		if lf, lerr := os.Open(file); lerr == nil {
			if syscall.Flock(int(lf.Fd()), syscall.LOCK_EX) == nil {
				lockHolder = lf
				w["target_flocked_by_another_descriptor"] = true
				e.Count("cases_with_target_locked_by_another_party", 1)
			} else {
				lf.Close()
			}
		}
	}
	res := runMutating(e, cmd, env, file, viaCLI)
	if lockHolder != nil {
		_ = syscall.Flock(int(lockHolder.Fd()), syscall.LOCK_UN)
		lockHolder.Close()
	}
	after := statID(file)
	afterText := ""
	if after.exists {
		afterText = readFile(file)
	}
	w["file_after"] = afterText
	if res.Panic != nil {
		// A Go panic ends the real process with status 2 and an error dump: for this property that is a reported
		// failure with a non-zero status, so what has to hold is that the file is untouched. (Whether a command may
		// fail at all for its arguments is C04's question.)
		e.Count("crashes_counted_as_failures", 1)
		w["panic"] = res.Panic.Value
		res.OK, res.Code, res.ErrText = false, 2, "panic: "+res.Panic.Value
	}
	if res.OK && strings.HasPrefix(cell, "unparseable-target") {
		e.Violation("success-on-unparseable-target", fmt.Sprintf("`klog %s` reported success although the target file breaks the specification (klog cannot know what it is editing); the file was rewritten", cmd.String()), w)
		return
	}
	if res.OK {
		if !after.exists {
			e.Violation("success-without-file", "the command reported success but the target file does not exist", w)
			return
		}
		if _, perr := readBack(afterText); perr != "" {
			e.Violation("success-leaves-invalid-file", fmt.Sprintf("`klog %s` reported success but the file on disk does not parse (%s)", cmd.String(), perr), w)
			return
		}
		if rec := ref.Recognise(afterText); rec.Verdict == ref.NonConforming {
			e.Violation("success-leaves-nonconforming-file", fmt.Sprintf("`klog %s` reported success but the file on disk breaks the specification at line %d (%s)", cmd.String(), rec.BadLine+1, rec.Rule), w)
			return
		}
		e.Count("successes", 1)
	} else {
		if viaCLI && res.Code == 0 {
			e.Violation("failure-with-exit-status-0", "the command printed an error but returned exit status 0", w)
			return
		}
		if cmd.Sabotage > 0 {
			// (the bytes on disk are the other party's now; what matters is that pause did not claim success)
			e.Count("failures", 1)
			e.Count("cell_"+cell, 1)
			return
		}
		if before.exists != after.exists || afterText != text && before.exists {
			e.Violation("failed-command-changes-file", fmt.Sprintf("`klog %s` failed (%s) but the file's bytes changed", cmd.String(), trunc(res.ErrText, 120)), w)
			return
		}
		if before.exists && (before.ino != after.ino || !before.mtime.Equal(after.mtime)) {
			e.Violation("failed-command-touches-file", fmt.Sprintf("`klog %s` failed but the file was rewritten (inode %d→%d, mtime %s→%s)", cmd.String(), before.ino, after.ino, before.mtime.Format(time.RFC3339Nano), after.mtime.Format(time.RFC3339Nano)), w)
			return
		}
		e.Count("failures", 1)
	}
	if core.Hash64("c05-devfull", fmt.Sprint(idx))%40 == 0 && e.KlogBin != "" && exists && cmd.Kind != "bookmarks" && !(cmd.Kind == "pause" && len(cmd.Ticks) > 1) {
		if !c05DevFull(e, file, text, cmd, env, w) {
			return
		}
	}
	if (core.Hash64("c05-bm", fmt.Sprint(idx))%40 == 0 || res.OK && core.Hash64("c05-bm2", fmt.Sprint(idx))%5 == 0) && e.KlogBin != "" && exists && cmd.Kind != "bookmarks" && cmd.Sabotage == 0 && !(cmd.Kind == "pause" && len(cmd.Ticks) > 1) {
		if !c05ViaDefaultBookmark(e, file, text, cmd, env, w) {
			return
		}
	}
	if (core.Hash64("c05-cfghome", fmt.Sprint(idx))%40 == 0 || res.OK && core.Hash64("c05-cfghome2", fmt.Sprint(idx))%12 == 0) && e.KlogBin != "" && exists && cmd.Kind != "bookmarks" && cmd.Sabotage == 0 && !(cmd.Kind == "pause" && len(cmd.Ticks) > 1) {
		if !c05UnusableConfigHome(e, file, text, cmd, env, w) {
			return
		}
	}
	if core.Hash64("c05-symlink", fmt.Sprint(idx))%8 == 0 && exists && cmd.Kind != "bookmarks" && cmd.Sabotage == 0 && !(cmd.Kind == "pause" && len(cmd.Ticks) > 1) {
		if !c05ViaSymlink(e, file, text, cmd, env, w) {
			return
		}
	}
	if cell != "" {
		e.Count("cell_"+cell, 1)
		e.Nontrivial(core.Hash64("c05", cell, text, cmd.String()))
	}
	if e.WantSample() && !res.OK && strings.HasPrefix(cell, "step2") {
		e.Sample(w)
	}
	if (withStrace || (res.OK && core.Hash64("c05-strace-ok", fmt.Sprint(idx))%6 == 0)) && e.KlogBin != "" && !(cmd.Kind == "pause" && len(cmd.Ticks) > 1) && cmd.Kind != "bookmarks" {
		c05Strace(e, file, text, exists, cmd, env, res.OK, w)
	}
}

// c05DevFull runs the real binary with a standard output on which every write fails (/dev/full): whatever the command
// then reports, a non-zero status must go with an untouched file and status 0 with a valid one.
func c05DevFull(e *core.Env, file, text string, cmd MCmd, env MEnv, w map[string]any) bool {
	if _, err := os.Stat("/dev/full"); err != nil {
		return true
	}
	_ = os.WriteFile(file, []byte(text), 0644)
	cfg := e.Dir + "/stracecfg"
	_ = os.MkdirAll(cfg, 0755)
	_ = os.WriteFile(cfg+"/config.ini", []byte(env.ConfigFile()), 0644)
	clock := env.Clock()
	args := append(cmd.Args(), "--no-warn", file)
	b := obs.RunBin(obs.BinEnv{Bin: e.KlogBin, ConfigDir: cfg, Clock: &clock, NoColor: true, StdoutPath: "/dev/full", ExtraEnv: []string{"KLOG_VERIF_MAXITER=2"}}, args...)
	if b.Err != nil {
		return true
	}
	after := readFile(file)
	w["stdout"] = "/dev/full"
	w["devfull_exit"] = b.Code
	w["devfull_file_after"] = after
	if b.Code != 0 && after != text {
		e.Violation("failed-command-changes-file", fmt.Sprintf("real binary with an unwritable standard output: `klog %s` exited with %d but the file's bytes changed\n%s", cmd.String(), b.Code, trunc(b.Stderr, 300)), w)
		return false
	}
	if b.Code == 0 {
		if _, perr := readBack(after); perr != "" {
			e.Violation("success-leaves-invalid-file", "real binary with an unwritable standard output: file does not parse after a successful command: "+perr, w)
			return false
		}
	}
	delete(w, "stdout")
	e.Count("runs_with_unwritable_stdout", 1)
	return true
}

// c05UnusableConfigHome runs the real binary with a config folder that does not exist and cannot be created (its parent
// is a regular file): klog reads its settings from there and may want to keep things there; whatever it makes of that,
// a non-zero status goes with an untouched target and status 0 with a valid one.
func c05UnusableConfigHome(e *core.Env, file, text string, cmd MCmd, env MEnv, w map[string]any) bool {
	blocker := e.Dir + "/not-a-folder"
	_ = os.WriteFile(blocker, []byte("x"), 0644)
	_ = os.WriteFile(file, []byte(text), 0644)
	clock := env.Clock()
	args := append(cmd.Args(), "--no-warn", file)
	cfgHome := blocker + "/klog" // looking into it fails with ENOTDIR
	if core.Hash64("c05-cfghome-kind", text, cmd.String())%3 != 0 {
		cfgHome = "/proc/klog-verif-no-such-folder/klog" // looking into it says "does not exist", creating it is impossible (even for root)
	}
	w["config_home"] = cfgHome
	b := obs.RunBin(obs.BinEnv{Bin: e.KlogBin, ConfigDir: cfgHome, Clock: &clock, NoColor: true, ExtraEnv: []string{"KLOG_VERIF_MAXITER=2"}}, args...)
	if b.Err != nil {
		return true
	}
	after := readFile(file)
	w["how"] = "real binary, KLOG_CONFIG_HOME below a regular file (cannot be created)"
	w["cfghome_exit"], w["cfghome_output"], w["cfghome_file_after"] = b.Code, trunc(b.Stdout+b.Stderr, 300), after
	if obs.LooksLikeGoCrash(b.Stdout + b.Stderr) {
		e.Count("crashes_counted_as_failures", 1)
	}
	if b.Code != 0 && after != text {
		e.Violation("failed-command-changes-file", fmt.Sprintf("real binary with a config folder that cannot be created: `klog %s` exited with %d but the file's bytes changed\n%s", cmd.String(), b.Code, trunc(b.Stdout+b.Stderr, 300)), w)
		return false
	}
	if b.Code == 0 {
		if _, perr := readBack(after); perr != "" {
			e.Violation("success-leaves-invalid-file", "real binary with a config folder that cannot be created: file does not parse after a successful command: "+perr, w)
			return false
		}
		e.Count("runs_with_unusable_config_home_succeeding", 1)
	}
	delete(w, "how")
	delete(w, "cfghome_exit")
	delete(w, "cfghome_output")
	delete(w, "cfghome_file_after")
	delete(w, "config_home")
	e.Count("runs_with_unusable_config_home", 1)
	return true
}

// c05ViaSymlink repeats the command with the target given as a symbolic link to the file (a journal kept in a synced
// folder and linked into the home directory): the link is just another path to the same bytes, so a reported failure
// goes with untouched bytes and a success with a valid file - and the link stays a link.
func c05ViaSymlink(e *core.Env, file, text string, cmd MCmd, env MEnv, w map[string]any) bool {
	link := e.Dir + "/link-to-target.klg"
	_ = os.Remove(link)
	if err := os.Symlink(file, link); err != nil {
		return true
	}
	defer os.Remove(link)
	_ = os.WriteFile(file, []byte(text), 0644)
	res := runMutating(e, cmd, env, link, false)
	after := readFile(file)
	w["how"] = "target given as a symbolic link to the file"
	w["symlink_file_after"] = after
	if res.Panic != nil {
		res.OK = false
	}
	if !res.OK && after != text {
		e.Violation("failed-command-changes-file", fmt.Sprintf("target given as a symbolic link: `klog %s` failed (%s) but the file's bytes changed", cmd.String(), trunc(res.ErrText, 120)), w)
		return false
	}
	if res.OK {
		if _, perr := readBack(after); perr != "" {
			e.Violation("success-leaves-invalid-file", "target given as a symbolic link: file does not parse after a successful command: "+perr, w)
			return false
		}
		if fi, err := os.Lstat(link); err != nil || fi.Mode()&os.ModeSymlink == 0 {
			e.Count("symlink_replaced_by_regular_file", 1)
		}
	}
	delete(w, "how")
	delete(w, "symlink_file_after")
	e.Count("runs_via_symlink", 1)
	if res.OK {
		e.Count("runs_via_symlink_succeeding", 1)
	}
	return true
}

// c05ViaDefaultBookmark runs the real binary without a file argument: the target is the default bookmark, and there is
// unrelated text on the standard input (`echo y | klog stop`). Mutating commands do not read it; whatever happens, a
// non-zero status goes with an untouched file.
func c05ViaDefaultBookmark(e *core.Env, file, text string, cmd MCmd, env MEnv, w map[string]any) bool {
	cfg := e.Dir + "/bmcfg"
	if _, err := os.Stat(cfg + "/bookmarks.json"); err != nil {
		_ = os.MkdirAll(cfg, 0755)
		if b := obs.RunBin(obs.BinEnv{Bin: e.KlogBin, ConfigDir: cfg}, "bookmarks", "set", "--force", file); b.Err != nil || b.Code != 0 {
			return true
		}
	}
	_ = os.WriteFile(file, []byte(text), 0644)
	_ = os.WriteFile(cfg+"/config.ini", []byte(env.ConfigFile()), 0644)
	clock := env.Clock()
	args := append(cmd.Args(), "--no-warn")
	b := obs.RunBin(obs.BinEnv{Bin: e.KlogBin, ConfigDir: cfg, Clock: &clock, NoColor: true, Stdin: []byte("y\nthis is not a klog file\n"), ExtraEnv: []string{"KLOG_VERIF_MAXITER=2"}}, args...)
	if b.Err != nil {
		return true
	}
	after := readFile(file)
	w["how"] = "echo 'y…' | klog " + strings.Join(args, " ") + "   (target = default bookmark)"
	w["bookmark_exit"] = b.Code
	w["bookmark_file_after"] = after
	if obs.LooksLikeGoCrash(b.Stdout + b.Stderr) {
		e.Count("crashes_counted_as_failures", 1)
	}
	if b.Code != 0 && after != text {
		e.Violation("failed-command-changes-file", fmt.Sprintf("real binary, target given by the default bookmark, unrelated text on standard input: `klog %s` exited with %d but the file's bytes changed\n%s", cmd.String(), b.Code, trunc(b.Stdout+b.Stderr, 300)), w)
		return false
	}
	if b.Code == 0 {
		if _, perr := readBack(after); perr != "" {
			e.Violation("success-leaves-invalid-file", "real binary, target given by the default bookmark: file does not parse after a successful command: "+perr, w)
			return false
		}
	}
	delete(w, "how")
	e.Count("runs_via_default_bookmark_with_unrelated_stdin", 1)
	if b.Code == 0 {
		e.Count("runs_via_default_bookmark_succeeding_"+cmd.Kind, 1)
	} else {
		e.Count("runs_via_default_bookmark_failing_"+cmd.Kind, 1)
	}
	return true
}

// c05Strace observes the real binary under strace. A finding that rests on the behaviour of external processes (strace,
// the binary) is only reported if it shows again when the observation is repeated: on a heavily loaded machine a process
// can fail for reasons that have nothing to do with klog (the thorough tier once saw an exit status 1 with empty output
// that never came back); what does not repeat is counted as inconclusive.
func c05Strace(e *core.Env, file, text string, exists bool, cmd MCmd, env MEnv, expectOK bool, w map[string]any) {
	key1, msg1 := c05StraceOnce(e, file, text, exists, cmd, env, expectOK, w)
	if key1 == "" {
		return
	}
	key2, _ := c05StraceOnce(e, file, text, exists, cmd, env, expectOK, w)
	if key2 == key1 {
		e.Violation(key1, msg1, w)
		return
	}
	e.Inconclusive("an observation of the real binary under strace did not repeat (" + key1 + ")")
}

func c05StraceOnce(e *core.Env, file, text string, exists bool, cmd MCmd, env MEnv, expectOK bool, w map[string]any) (string, string) {
	if _, err := exec.LookPath("strace"); err != nil {
		e.Inconclusive("strace not available")
		return "", ""
	}
	_ = os.Remove(file)
	if exists {
		_ = os.WriteFile(file, []byte(text), 0644)
	}
	cfg := e.Dir + "/stracecfg"
	_ = os.MkdirAll(cfg, 0755)
	_ = os.WriteFile(cfg+"/config.ini", []byte(env.ConfigFile()), 0644)
	trace := e.Dir + "/trace.txt"
	_ = os.Remove(trace)
	args := []string{"-f", "-qq", "-e", "trace=openat,open,creat,rename,renameat,renameat2,unlink,unlinkat,truncate,ftruncate", "-o", trace, e.KlogBin}
	args = append(args, cmd.Args()...)
	args = append(args, "--no-warn", file)
	c := exec.Command("strace", args...)
	c.Env = []string{"KLOG_CONFIG_HOME=" + cfg, "HOME=" + cfg, "PATH=/usr/bin:/bin", "NO_COLOR=1", "KLOG_VERIF_NOW=" + env.Clock().Format(time.RFC3339), "KLOG_VERIF_MAXITER=2"}
	outb, err := c.CombinedOutput()
	code := 0
	if ee, ok := err.(*exec.ExitError); ok {
		code = ee.ExitCode()
	} else if err != nil {
		e.Inconclusive("cannot run strace: " + err.Error())
		return "", ""
	}
	out := string(outb)
	tb, _ := os.ReadFile(trace)
	writes, destructive := 0, []string{}
	for _, l := range strings.Split(string(tb), "\n") {
		if !strings.Contains(l, "\""+file+"\"") {
			continue
		}
		switch {
		case strings.Contains(l, "openat(") || strings.Contains(l, "open(") || strings.Contains(l, "creat("):
			if strings.Contains(l, "O_WRONLY") || strings.Contains(l, "O_RDWR") || strings.Contains(l, "O_TRUNC") || strings.Contains(l, "O_CREAT") || strings.Contains(l, "O_APPEND") || strings.Contains(l, "creat(") {
				writes++
				destructive = append(destructive, l)
			}
		case strings.Contains(l, "rename") || strings.Contains(l, "unlink") || strings.Contains(l, "truncate"):
			destructive = append(destructive, l)
			writes++
		}
	}
	w["strace_exit"] = code
	w["strace_target_syscalls"] = destructive
	if obs.LooksLikeGoCrash(out) {
		e.Count("strace_crashes_counted_as_failures", 1) // status 2: a failure, judged like one below
	}
	if (code == 0) != expectOK {
		return "binary-outcome-differs", fmt.Sprintf("real binary: `klog %s` exited with %d, in-process outcome was ok=%v\n%s", cmd.String(), code, expectOK, trunc(out, 400))
	}
	if code != 0 && writes > 0 {
		sort.Strings(destructive)
		return "failing-command-opens-target-for-writing", fmt.Sprintf("real binary: `klog %s` exited with %d but touched the target destructively:\n%s", cmd.String(), code, strings.Join(destructive, "\n"))
	}
	if code == 0 && writes == 0 {
		return "successful-command-never-writes", fmt.Sprintf("real binary: `klog %s` exited with 0 but never opened the target for writing", cmd.String())
	}
	if code == 0 {
		if _, perr := readBack(readFile(file)); perr != "" {
			return "success-leaves-invalid-file", "real binary: file does not parse after a successful command: "+perr
		}
		e.Count("strace_successes_with_write_open", 1)
	} else {
		if readFile(file) != text && exists {
			return "failed-command-changes-file", "real binary: bytes changed after a failing command"
		}
		e.Count("strace_failures_without_write_open", 1)
	}
	return "", ""
}
