package props

import (
	"unicode/utf16"
	"fmt"
	"strings"
	"time"

	"github.com/jotaen/klog/klog"
	"github.com/jotaen/klog/klog/app"
	"github.com/jotaen/klog/klog/app/cli"
	tf "github.com/jotaen/klog/klog/app/cli/terminalformat"
	"github.com/jotaen/klog/klog/app/cli/util"
	"github.com/jotaen/klog/klog/parser"
	kjson "github.com/jotaen/klog/klog/parser/json"
	"github.com/jotaen/klog/klog/parser/txt"
	"github.com/jotaen/klog/klog/service"
	"verifharness/core"
	"verifharness/gen"
	"verifharness/obs"
	"verifharness/ref"
)

// C06 — no file content can crash klog: parsing and evaluation are total.

// witnesses of recorded findings come first so that every run re-observes them
var c06Witnesses = []string{
	"2024-03-15\n    9223372036854775807m\n    1m\n",                     // sum of entries exceeds the int range
	"2024-03-15 (9223372036854775807m!)\n\n2024-03-14 (1m!)\n    1h\n",   // sum of should-totals exceeds the int range
	"2024-03-15\n    9223372036854775807m\n",                             // report --chart: bar length beyond any slice
	"2020-01-01\n    99999999999999999999h",                              // F2
	"2020-01-01\n    1h foo\xff",                                         // F1
	"2020-01-01\n    1h\n         ",                                      // F3
	"9999-12-31\n\t0:30> - 1:00>\n\n0000-01-01\n    <23:00 - <23:30\n",   // date range edges with shifted times
	"2024-03-15\n    153722867280912930h7m\n",                            // largest representable amount
	"2024-03-15 (-153722867280912930h7m!)\n    -153722867280912930h7m\n", // most negative
	"2024-03-15\n    999999999999999999h\n",                              // 18 digits, overflows only after *60
	"2024-03-15\n    8:00 - ?\n\n2024-03-14\n    23:00 - ?\n",            // open ranges today and yesterday
}

func init() {
	core.Register(&core.Prop{
		ID:    "C06",
		Level: "exploration",
		Rule: "inputs: (w) fixed witnesses of recorded findings/fixes; (t) ALL strings of 1..3 tokens (quick; thorough adds a 1/8 hash sample of length 4) over a 46-token alphabet of klog fragments incl. invalid UTF-8, NUL, lone CR, NBSP and numbers at the int boundaries; " +
			"(m) byte-level mutations (flip, insert token, delete, splice, truncate inside a rune, huge number, line-ending swap, line duplication, blank replacement) of generated documents and rule-violating mutants; (r) PRNG bytes. " +
			"every input: serial parse and parallel parse with n in {2,3,7,len+1}; shape must be (records, one block per record, no errors) or (no records, >=1 error) or nothing at all for blank input; " +
			"rejected: every txt.Error accessor, the terminal report under all 4 themes, json.ToJson of the errors; accepted: print, print --with-totals, total --diff [--now], report -a d/w/m/q/y [--fill span<=3000d, for quarters and years span<=250000d] [--chart] [--diff] [--now], tags -v -c, today --diff --now, json [--pretty], " +
			"each with PRNG filter/sort flags, warnings enabled, clock = fixed date or the first record's date; 1 in 25 accepted and 1 in 250 rejected inputs additionally through the real binary (file and stdin). " +
			"oracle: no panic (recover in-process, exit status and output scan for the binary, process death seen by the supervisor), shape predicate; a case above 20 s is reported as slow (inconclusive), a child killed by the watchdog is replayed alone to separate hangs from load. " +
			"non-trivial & distinct = inputs that reach the record parser (>=1 significant line), by hash",
		Assumptions: []string{
			"`report --chart` and `--fill` are only driven where their output size is bounded (|totals| <= 10^7 min, span <= 3000 days): legitimately large outputs are not hangs",
			"the virtual clock stays within years 0001..9998 (crashes caused by a wall clock at the edge of the representable range are not file-content crashes)",
		},
		Planned: func(tier string, seed uint64) int64 {
			if tier == "thorough" {
				return int64(len(c06Witnesses)) + gen.TokenCount(1) + gen.TokenCount(2) + gen.TokenCount(3) + gen.TokenCount(4)/8 + 1500000 + 200000
			}
			return int64(len(c06Witnesses)) + gen.TokenCount(1) + gen.TokenCount(2) + gen.TokenCount(3) + 60000 + 10000
		},
		Watchdog: func(tier string) time.Duration {
			if tier == "thorough" {
				return 60 * time.Minute
			}
			return 10 * time.Minute
		},
		RaceShards: func(tier string) int {
			if tier == "thorough" {
				return 4
			}
			return 0
		},
		HangIsViolation: true,
		Run:             runC06,
	})
}

func runC06(e *core.Env) {
	nW := int64(len(c06Witnesses))
	t1, t2, t3, t4 := gen.TokenCount(1), gen.TokenCount(2), gen.TokenCount(3), gen.TokenCount(4)
	nTok := t1 + t2 + t3
	if !e.Quick() {
		nTok += t4
	}
	nMut := int64(e.N(60000, 1500000))
	nRaw := int64(e.N(10000, 200000))
	if e.RaceBuild {
		nMut, nRaw = nMut/20, nRaw/20
	}
	total := nW + nTok + nMut + nRaw
	for i := int64(0); i < total; i++ {
		if !e.Mine(i) {
			continue
		}
		r := core.NewRand(e.Seed, 6, uint64(i))
		var text, kind string
		switch {
		case i < nW:
			text, kind = c06Witnesses[i], "witness"
		case i < nW+nTok:
			k := i - nW
			switch {
			case k < t1:
				text = gen.TokenString(1, k)
			case k < t1+t2:
				text = gen.TokenString(2, k-t1)
			case k < t1+t2+t3:
				if e.RaceBuild && k%16 != 0 {
					continue
				}
				text = gen.TokenString(3, k-t1-t2)
			default:
				kk := k - t1 - t2 - t3
				if core.Hash64("t4", fmt.Sprint(e.Seed, kk))%8 != 0 || e.RaceBuild {
					continue
				}
				text = gen.TokenString(4, kk)
			}
			kind = "tokens"
		case i < nW+nTok+nMut:
			d := gen.Document(r, gen.Opts{MaxRecs: 5, MaxEntries: 5, Unicode: r.Bool(), Hostile: true, OpenRanges: 1, Tags: r.Intn(3), TrailingBlank: true, LookAlikes: r.Bool(),
				MaxHours: r.PickInt(30, 100000), Near: nearDate(r), JSONHostile: r.Chance(1, 4)})
			text = d.Text
			if r.Chance(1, 3) {
				if m, ok := gen.Mutate(r, d); ok {
					text = m.Text
				}
			}
			if !r.Chance(1, 5) {
				text = gen.MutateBytes(r, text)
			}
			switch r.Intn(150) {
			case 0:
				text = strings.Repeat(text+"\n", r.PickInt(20, 120)) // many lines
			case 1:
				text += "\n\n2024-03-15\n    1h " + strings.Repeat("long ", r.PickInt(1000, 30000)) // very long line
			}
			kind = "mutation"
		default:
			text, kind = gen.RawBytes(r, r.PickInt(1, 5, 20, 60, 200, 1000)), "raw"
		}
		if kind != "tokens" && core.Hash64("c06-encoding", fmt.Sprint(e.Seed, i))%30 == 0 {
			// what editors and shells on other systems put in front of (or make of) a text: byte order marks of UTF-8,
			// UTF-16 and UTF-32, and the text itself in UTF-16 - complete or cut off in the middle of a unit
			switch core.Hash64("c06-encoding-kind", fmt.Sprint(e.Seed, i)) % 8 {
			case 0:
				text = "\xef\xbb\xbf" + text
			case 1:
				text = "\xff\xfe" + text
			case 2:
				text = "\xfe\xff" + text
			case 3:
				text = "\xff\xfe\x00\x00" + text
			case 4:
				text = "\x00\x00\xfe\xff" + text
			default:
				le := core.Hash64("c06-encoding-le", fmt.Sprint(e.Seed, i))%2 == 0
				var sb strings.Builder
				if le {
					sb.WriteString("\xff\xfe")
				} else {
					sb.WriteString("\xfe\xff")
				}
				for _, u := range utf16.Encode([]rune(text)) {
					if le {
						sb.WriteByte(byte(u))
						sb.WriteByte(byte(u >> 8))
					} else {
						sb.WriteByte(byte(u >> 8))
						sb.WriteByte(byte(u))
					}
				}
				text = sb.String()
				if core.Hash64("c06-encoding-cut", fmt.Sprint(e.Seed, i))%2 == 0 && len(text) > 2 {
					text = text[:len(text)-1]
				}
			}
			kind = "encoding"
		}
		e.Begin(i, []byte(text))
		t0 := time.Now()
		c06One(e, r, i, text, kind)
		e.Count("cpu_ms_"+kind, time.Since(t0).Milliseconds())
		if d := time.Since(t0); d > 20*time.Second {
			e.Inconclusive(fmt.Sprintf("slow case (%s, %d bytes took %s; kept for inspection, not judged)", kind, len(text), d.Round(time.Second)))
		}
		e.End(i)
	}
}

func nearDate(r *core.Rand) *ref.Date {
	switch r.Intn(8) {
	case 0, 1, 2:
		return &ref.Date{Y: 2024, M: 3, D: 15}
	case 3: // the ends of the calendar: every date computation that steps beyond a record's date is one step from the edge
		return &ref.Date{Y: 9999, M: 12, D: 28}
	case 4:
		return &ref.Date{Y: 0, M: 1, D: 4}
	}
	return nil
}

func c06Shape(nrec, nblock, nerr int, blank bool) string {
	switch {
	case nerr > 0 && (nrec != 0 || nblock != 0):
		return fmt.Sprintf("errors AND records/blocks returned (%d records, %d blocks, %d errors)", nrec, nblock, nerr)
	case nerr == 0 && nrec != nblock:
		return fmt.Sprintf("%d records but %d blocks", nrec, nblock)
	case nerr == 0 && nrec == 0 && !blank:
		return "non-blank text yields neither records nor errors"
	}
	return ""
}

func c06One(e *core.Env, r *core.Rand, idx int64, text, kind string) {
	w := map[string]any{"text": text, "kind": kind}
	blank := strings.Trim(text, " \t\n") == "" || strings.Trim(strings.ReplaceAll(text, "\r\n", "\n"), " \t\n") == ""
	var recs []klog.Record
	var errs []txt.Error
	pi := core.Guard(func() {
		rs, bs, es := parser.NewSerialParser().Parse(text)
		recs, errs = rs, es
		if s := c06Shape(len(rs), len(bs), len(es), blank); s != "" {
			e.Violation("parse-result-shape", "serial parser: "+s, w)
		}
	})
	if pi != nil {
		e.Violation("parse-panic: "+pi.Site(), "serial parser panicked: "+pi.Value, w)
		return
	}
	for _, n := range []int{2, 3, 7, len(text) + 1} {
		if n > 300 {
			n = 64
		}
		if pi := core.Guard(func() {
			rs, bs, es := parser.NewParallelParser(n).Parse(text)
			if s := c06Shape(len(rs), len(bs), len(es), blank); s != "" {
				e.Violation("parse-result-shape", fmt.Sprintf("parallel parser (%d workers): %s", n, s), w)
			}
		}); pi != nil {
			e.Violation("parse-panic: "+pi.Site(), fmt.Sprintf("parallel parser (%d workers) panicked: %s", n, pi.Value), w)
		}
	}
	sig := false
	for _, l := range ref.SplitLines(text) {
		if !ref.IsBlankST(l.Text) {
			sig = true
			break
		}
	}
	if sig {
		e.Nontrivial(core.Hash64("c06", text))
	}
	e.Count("inputs_"+kind, 1)
	if len(errs) > 0 {
		e.Count("rejected", 1)
		infos := obs.ErrorsOf(errs)
		for k, ei := range infos {
			if ei.Panic != "" {
				e.Violation("error-accessor-panic", fmt.Sprintf("accessor of error #%d (line %d, %s) panicked: %s", k, ei.Line, ei.Code, ei.Panic), w)
				return
			}
			e.Distinct("error_codes", core.Hash64(ei.Code))
		}
		for _, th := range []tf.ColourTheme{tf.COLOUR_THEME_NO_COLOUR, tf.COLOUR_THEME_DARK, tf.COLOUR_THEME_LIGHT, tf.COLOUR_THEME_BASIC} {
			if pi := core.Guard(func() { _ = util.PrettifyParsingError(app.NewParserErrors(errs), tf.NewStyler(th)).Error() }); pi != nil {
				e.Violation("error-report-panic: "+pi.Site(), fmt.Sprintf("terminal error report (theme %s) panicked: %s", th, pi.Value), w)
				break
			}
		}
		for _, pretty := range []bool{false, true} {
			if pi := core.Guard(func() {
				out := kjson.ToJson(nil, errs, pretty)
				if _, derr := obs.DecodeJSON([]byte(out)); derr != nil {
					e.Violation("error-json-malformed", "JSON view of the errors is not well-formed: "+derr.Error(), w)
				}
			}); pi != nil {
				e.Violation("error-json-panic: "+pi.Site(), "JSON view of the errors panicked: "+pi.Value, w)
			}
		}
		if kind == "encoding" || idx%10 == 7 {
			// the same bytes as a file: reading it is part of "no file content can crash klog"
			f := writeFile(e.Dir, "c06rej.klg", text)
			res := runRO(e, &cli.Total{WarnArgs: util.WarnArgs{NoWarn: true}, NoStyleArgs: util.NoStyleArgs{NoStyle: true}, InputFilesArgs: util.InputFilesArgs{File: files(f)}}, 1, "", "", time.Date(2024, 3, 15, 12, 0, 0, 0, time.UTC))
			if res.Panic != nil {
				e.Violation("command-panic: "+res.Panic.Site(), "`klog total FILE` on a rejected text panicked: "+res.Panic.Value, w)
				return
			}
			e.Count("rejected_texts_read_from_a_file", 1)
		}
		if (idx%250 == 3 || kind == "encoding" && idx%5 == 0) && e.KlogBin != "" {
			c06Binary(e, r, text, false, w)
		}
		return
	}
	if len(recs) == 0 {
		e.Count("blank", 1)
		return
	}
	e.Count("accepted", 1)
	c06Evaluate(e, r, text, recs, w)
	if idx%25 == 5 && e.KlogBin != "" {
		c06Binary(e, r, text, true, w)
	}
}

func c06Clock(r *core.Rand, recs []klog.Record) time.Time {
	d := ref.Date{Y: 2024, M: 3, D: 15}
	if r.Bool() && len(recs) > 0 {
		rd := recs[r.Intn(len(recs))].Date()
		d = ref.Date{Y: rd.Year(), M: rd.Month(), D: rd.Day()}
		if r.Chance(1, 3) {
			d = d.Plus(1)
		}
		if d.Y < 1 || (d.Y == 1 && d.M == 1 && d.D < 3) {
			d = ref.Date{Y: 1, M: 1, D: 3}
		}
		if d.Y > 9998 {
			d = ref.Date{Y: 9998, M: 12, D: 28}
		}
	}
	return obs.ClockAt(d, r.PickInt(0, 1, 12*60+34, 23*60+59, r.Intn(1440)), r.PickInt(0, 59))
}

func c06Filter(r *core.Rand, recs []klog.Record) util.FilterArgs {
	var f util.FilterArgs
	if r.Chance(1, 2) {
		return f
	}
	d := recs[r.Intn(len(recs))].Date()
	switch r.Intn(8) {
	case 0:
		f.Date = d
	case 1:
		f.Since = d
	case 2:
		f.Until = d
	case 3:
		f.Today = true
	case 4:
		f.ThisWeek = true
	case 5:
		f.EntryType = service.EntryType(r.Pick("RANGE", "OPEN_RANGE", "DURATION", "DURATION_POSITIVE", "DURATION_NEGATIVE"))
	case 6:
		f.Tags = []klog.Tag{klog.NewTagOrPanic(r.Pick("work", "a", "dup", "ticket"), r.Pick("", "", "1", "891"))}
	case 7:
		f.ThisYear = true
	}
	return f
}

func c06Evaluate(e *core.Env, r *core.Rand, text string, recs []klog.Record, w map[string]any) {
	f := writeFile(e.Dir, "c06.klg", text)
	files := util.InputFilesArgs{File: []app.FileOrBookmarkName{app.FileOrBookmarkName(f)}}
	// bounds for output-size sensitive flags
	minD, maxD := 1<<60, -(1 << 60)
	var absTotal int64
	for _, rc := range recs {
		dd := ref.DaysFromCivil(rc.Date().Year(), rc.Date().Month(), rc.Date().Day())
		if dd < minD {
			minD = dd
		}
		if dd > maxD {
			maxD = dd
		}
		for _, en := range rc.Entries() {
			en := en
			m := en.Duration().InMinutes()
			if m < 0 {
				m = -m
			}
			if absTotal < 1<<40 {
				absTotal += int64(m)
				if absTotal < 0 {
					absTotal = 1 << 40
				}
			}
		}
	}
	fillOK := maxD-minD <= 3000
	chartOK := absTotal <= 10_000_000
	forceChart := text == c06Witnesses[2] // only the fixed witness of the recorded chart finding drives --chart beyond the size bound
	clock := c06Clock(r, recs)
	theme := r.Pick("no_colour", "dark", "light", "basic")
	cpus := r.PickInt(1, 1, 2, 8)
	type cmd struct {
		name string
		run  func(ctx app.Context) app.Error
	}
	now := r.Bool()
	cmds := []cmd{
		{"print", func(ctx app.Context) app.Error {
			return (&cli.Print{WithTotals: r.Bool(), FilterArgs: c06Filter(r, recs), SortArgs: util.SortArgs{Sort: r.Pick("", "asc", "desc")}, InputFilesArgs: files}).Run(ctx)
		}},
		{"total", func(ctx app.Context) app.Error {
			return (&cli.Total{FilterArgs: c06Filter(r, recs), DiffArgs: util.DiffArgs{Diff: true}, NowArgs: util.NowArgs{Now: now}, DecimalArgs: util.DecimalArgs{Decimal: r.Chance(1, 4)}, InputFilesArgs: files}).Run(ctx)
		}},
		{"report", func(ctx app.Context) app.Error {
			agg := r.Pick("d", "w", "m", "q", "y", "day", "WEEK")
			// (--fill prints one row per period: days/weeks/months only for short spans, quarters and years for spans of centuries)
			fill := (fillOK || ((agg == "q" || agg == "y") && maxD-minD <= 250000)) && r.Bool()
			return (&cli.Report{AggregateBy: agg, Fill: fill, Chart: forceChart || (chartOK && r.Bool()), DiffArgs: util.DiffArgs{Diff: r.Bool()},
				FilterArgs: c06Filter(r, recs), NowArgs: util.NowArgs{Now: r.Chance(1, 3)}, DecimalArgs: util.DecimalArgs{Decimal: r.Chance(1, 4)}, InputFilesArgs: files}).Run(ctx)
		}},
		{"tags", func(ctx app.Context) app.Error {
			return (&cli.Tags{Values: r.Bool(), Count: r.Bool(), FilterArgs: c06Filter(r, recs), NowArgs: util.NowArgs{Now: r.Chance(1, 3)}, InputFilesArgs: files}).Run(ctx)
		}},
		{"today", func(ctx app.Context) app.Error {
			return (&cli.Today{DiffArgs: util.DiffArgs{Diff: r.Bool()}, NowArgs: util.NowArgs{Now: r.Bool()}, InputFilesArgs: files}).Run(ctx)
		}},
		{"json", func(ctx app.Context) app.Error {
			return (&cli.Json{Pretty: r.Bool(), NowArgs: util.NowArgs{Now: r.Chance(1, 3)}, FilterArgs: c06Filter(r, recs), SortArgs: util.SortArgs{Sort: r.Pick("", "asc", "desc")}, InputFilesArgs: files}).Run(ctx)
		}},
	}
	for _, c := range cmds {
		ctx, _, err := obs.NewCtx(obs.CtxOpts{ConfigDir: e.Dir + "/cfg", Cpus: cpus, Theme: theme, Clock: clock})
		if err != nil {
			panic("harness: " + err.Error())
		}
		var aerr app.Error
		tc := time.Now()
		pi := core.Guard(func() { aerr = c.run(ctx) })
		e.Count("cpu_us_cmd_"+c.name, time.Since(tc).Microseconds())
		if pi != nil {
			e.Violation("command-panic: "+pi.Site(), fmt.Sprintf("`klog %s` panicked on an accepted file: %s", c.name, pi.Value), w)
			continue
		}
		if aerr != nil {
			// rendering of the app error must not crash either
			if pi := core.Guard(func() { _ = util.PrettifyAppError(aerr, false).Error() }); pi != nil {
				e.Violation("app-error-report-panic: "+pi.Site(), pi.Value, w)
			}
			e.Count("commands_returning_an_error", 1)
		}
		e.Count("commands_run", 1)
	}
	if e.WantSample() && len(text) < 250 && len(recs) > 1 {
		e.Sample(map[string]any{"input": text, "accepted": true, "commands": "print,total,report,tags,today,json with PRNG flags"})
	}
}

func c06Binary(e *core.Env, r *core.Rand, text string, accepted bool, w map[string]any) {
	clock := obs.ClockAt(ref.Date{Y: 2024, M: 3, D: 15}, 12*60+34, 0)
	f := writeFile(e.Dir, "c06bin.klg", text)
	cfg := e.Dir + "/bincfg"
	argsets := [][]string{{"print", f}, {"total", "--diff", "--now", f}, {"json", f}, {"report", "-a", "w", f}, {"tags", f}, {"today", f}}
	a := argsets[r.Intn(len(argsets))]
	check := func(res obs.BinResult, how string) {
		if res.Err != nil {
			e.Inconclusive("could not run the klog binary: " + res.Err.Error())
			return
		}
		if obs.LooksLikeGoCrash(res.Stdout) || obs.LooksLikeGoCrash(res.Stderr) || res.Code == 2 && strings.Contains(res.Stderr, "goroutine") {
			e.Violation("command-panic: "+core.PanicSite(strings.TrimPrefix(firstPanicLine(res.Stderr+res.Stdout), "panic: "), res.Stderr+res.Stdout), fmt.Sprintf("klog %v (%s) crashed:\n%s", a[:len(a)-1], how, trunc(res.Stderr+res.Stdout, 1500)), w)
			return
		}
		if res.Code < 0 || res.Code > 8 {
			e.Violation("binary-exit-status", fmt.Sprintf("klog %v (%s) exited with undocumented status %d", a[:len(a)-1], how, res.Code), w)
		}
		e.Count("binary_runs", 1)
	}
	check(obs.RunBin(obs.BinEnv{Bin: e.KlogBin, ConfigDir: cfg, Clock: &clock, NoColor: r.Bool()}, a...), "file argument")
	if !strings.Contains(text, "\x00") {
		check(obs.RunBin(obs.BinEnv{Bin: e.KlogBin, ConfigDir: cfg, Clock: &clock, Stdin: []byte(text)}, a[:len(a)-1]...), "stdin")
	}
}

func firstPanicLine(s string) string {
	for _, l := range strings.Split(s, "\n") {
		if strings.HasPrefix(l, "panic: ") || strings.HasPrefix(l, "fatal error: ") {
			return l
		}
	}
	return "crash"
}
