package props

import (
	"bytes"
	"fmt"
	"os/exec"
	"strings"
	"unicode/utf8"

	"github.com/jotaen/klog/klog/app/cli"
	"github.com/jotaen/klog/klog/app/cli/util"
	"verifharness/core"
	"verifharness/gen"
	"verifharness/obs"
	"verifharness/ref"
)

// C20 — the JSON output is well-formed and faithful to the data.

func init() {
	core.Register(&core.Prop{
		ID:    "C20",
		Level: "exploration",
		Rule: "generated documents and rule-violating mutants whose summaries are loaded with characters JSON must escape (quotes, backslashes, control characters U+0000-U+001F/U+007F, U+2028/9, <>&, astral runes, U+FFFD) and, for a quarter of the valid ones, invalid UTF-8; " +
			"`klog json` with PRNG --pretty / date, tag, entry-type filters / --sort, warnings enabled (overlaps, future entries, >24h totals occur naturally). oracle: stdout is exactly one JSON document (Go decoder with trailing-data check; jq and python3 on the real binary's output for a sample), " +
			"exactly one of records/errors is non-null; valid input: every record/entry field equals the generating model (date text, summary joined by \\n, sorted canonical tags from the reference scanner, type, start/end text and minutes, totals; total = sum of entries, diff = total - should, range total = end - start) under the reference selection for the filters; " +
			"invalid input: each error object equals the terminal report of `klog print` (line, column = blanks+1, length = carets, message after whitespace normalisation). invalid UTF-8 texts: well-formedness and arithmetic relations only. " +
			"non-trivial & distinct = valid texts with >=1 character that JSON must escape and >=1 range, or invalid texts with >=2 errors, by hash",
		Planned: func(tier string, seed uint64) int64 { return map[string]int64{"quick": 20000, "thorough": 800000}[tier] },
		Run:     runC20,
	})
}

func runC20(e *core.Env) {
	total := int64(e.N(20000, 800000))
	for i := int64(0); i < total; i++ {
		if !e.Mine(i) {
			continue
		}
		r := core.NewRand(e.Seed, 20, uint64(i))
		today := ref.Date{Y: 2024, M: 3, D: 15}
		o := gen.Opts{MaxRecs: 6, MinRecs: 0, MaxEntries: 5, Unicode: r.Bool(), Hostile: r.Chance(1, 2), OpenRanges: 1, Tags: r.Intn(3), JSONHostile: true, LookAlikes: r.Chance(1, 3),
			TrailingBlank: r.Chance(1, 3), NoDupDates: true, MaxHours: r.PickInt(30, 100000)}
		if r.Chance(1, 3) {
			o.Near, o.NearSpread = &today, 3
		}
		d := gen.Document(r, o)
		switch core.Hash64("c20-size", fmt.Sprint(e.Seed, i)) % 500 {
		case 0: // more than a thousand records behind the generated ones
			if x, ok := withAppended(d, manyRecordsText(r, r.PickInt(1001, 1300))); ok {
				d = x
			}
		case 1: // a line beyond 64 KiB
			if x, ok := withAppended(d, longLineText(r, r.PickInt(65536, 70000))); ok {
				d = x
			}
		}
		if i%4 == 3 {
			text := d.Text
			if m, ok := gen.Mutate(r, d); ok {
				text = m.Text
				for k := r.Intn(3); k > 0; k-- {
					d2 := gen.Document(r, gen.Opts{MaxRecs: 2, MinRecs: 1, JSONHostile: true, Hostile: true})
					if m2, ok2 := gen.Mutate(r, d2); ok2 {
						if !strings.HasSuffix(text, "\n") {
							text += "\n"
						}
						text += "\n" + m2.Text
					}
				}
				e.Begin(i, []byte(text))
				c20Invalid(e, r, i, text)
				e.End(i)
				continue
			}
		}
		text := d.Text
		validUTF8 := true
		if i%4 == 1 {
			if t2, changed := c08Decorate(r, d); changed {
				text = t2
				validUTF8 = utf8.ValidString(text) && !strings.Contains(text, "\r\r") && text == strings.ToValidUTF8(text, "")
			}
		}
		e.Begin(i, []byte(text))
		c20Valid(e, r, i, d, text, validUTF8 && text == d.Text, today)
		e.End(i)
	}
}

func c20Query(r *core.Rand, doc *ref.Doc) query {
	var q query
	switch r.Intn(6) {
	case 0, 1:
		// none
	case 2:
		d := dateOfRecOrNear(r, doc)
		switch r.Intn(3) {
		case 0:
			q.Since = &d
		case 1:
			q.Until = &d
		default:
			q.Date = &d
		}
	case 3:
		t, arg := genTagQuery(r, docTags(doc))
		q.Tags, q.TagArgs = []ref.Tag{t}, []string{arg}
	case 4:
		q.EntryType = r.Pick("range", "open-range", "duration", "duration-positive", "duration-negative")
	case 5:
		q.Sort = r.Pick("asc", "desc", "ASC")
	}
	if r.Chance(1, 4) && q.Sort == "" {
		q.Sort = r.Pick("asc", "desc")
	}
	return q
}

func c20Valid(e *core.Env, r *core.Rand, idx int64, d *gen.Out, text string, exact bool, today ref.Date) {
	w := map[string]any{"text": text}
	f := writeFile(e.Dir, "c20.klg", text)
	q := c20Query(r, d.Doc)
	fa, sa, ok := buildFilterArgs(q)
	if !ok {
		e.Inconclusive("harness: query not decodable: " + q.String())
		return
	}
	pretty := r.Bool()
	in := []string{f}
	if exact && r.Chance(1, 6) {
		if parts, ok := splitAtRecord(e, r, d, "c20"); ok {
			in = parts
			e.Count("cases_with_two_input_files", 1)
		}
	}
	w["flags"] = fmt.Sprintf("pretty=%v %s files=%d", pretty, q.String(), len(in))
	clock := obs.ClockAt(today, 13*60+5, 0)
	var out string
	if idx%5 == 0 && q.cliOK() {
		args := []string{"json"}
		if pretty {
			args = append(args, "--pretty")
		}
		args = append(append(args, q.Args()...), in...)
		res := obs.RunCLI(obs.CLIEnv{ConfigDir: e.Dir + "/cfg", Cpus: r.PickInt(1, 4), Clock: clock}, args...)
		if res.Panic != nil {
			e.Violation("json-panic: "+res.Panic.Site(), res.Panic.Value, w)
			return
		}
		if res.Code != 0 {
			e.Violation("json-fails-on-readable-input", fmt.Sprintf("`klog %v` exited with %d: %s", args[:len(args)-1], res.Code, res.Err), w)
			return
		}
		out = res.Out
		e.Count("cli_path_runs", 1)
	} else {
		res := runRO(e, &cli.Json{Pretty: pretty, FilterArgs: fa, SortArgs: sa, InputFilesArgs: util.InputFilesArgs{File: files(in...)}}, r.PickInt(1, 4), "", "", clock)
		if res.Panic != nil {
			e.Violation("json-panic: "+res.Panic.Site(), res.Panic.Value, w)
			return
		}
		if res.Err != nil {
			e.Violation("json-fails-on-readable-input", "klog json failed: "+res.Err.Error()+" "+res.Err.Details(), w)
			return
		}
		out = res.Out
	}
	recs, _, rnull, enull, jerr := decodeJSONEnvelope(out)
	if jerr != nil {
		e.Violation("json-not-one-wellformed-document", fmt.Sprintf("%v\noutput: %s", jerr, trunc(out, 600)), w)
		return
	}
	accepted := ref.Recognise(d.Text).Verdict == ref.Conforming
	_ = accepted
	if rnull == enull {
		e.Violation("json-envelope", fmt.Sprintf("records null=%v and errors null=%v (exactly one must be non-null)", rnull, enull), w)
		return
	}
	if rnull {
		if exact {
			e.Violation("json-errors-for-valid-input", "klog json reports errors for a valid file: "+trunc(out, 400), w)
		} else {
			e.Count("decorated_text_rejected", 1)
		}
		return
	}
	want, undecided := q.apply(d.Doc, today)
	if undecided || (len(q.Tags) > 0 && hasTagAmbiguity(d.Doc)) {
		e.Count("undecided_queries_skipped", 1)
		return
	}
	if exact {
		if diff := compareJSONRecords(recs, want, true, true); diff != "" {
			e.Violation("json-not-faithful", fmt.Sprintf("`klog json %s`: %s", w["flags"], diff), w)
			return
		}
	} else {
		// decorated (possibly invalid UTF-8) text: only the arithmetic relations of whatever is shown
		if diff := c20Arithmetic(recs); diff != "" {
			e.Violation("json-arithmetic", diff, w)
			return
		}
		e.Count("non_utf8_or_decorated_texts", 1)
	}
	e.Count("valid_texts", 1)
	needsEscape := strings.ContainsAny(d.Text, "\"\\<>&\x01\x7f\b\f") || strings.Contains(d.Text, "\u2028")
	hasRange := false
	for i := range d.Doc.Recs {
		for k := range d.Doc.Recs[i].Entries {
			if d.Doc.Recs[i].Entries[k].Kind == ref.KRange {
				hasRange = true
			}
		}
	}
	if needsEscape && hasRange {
		e.Nontrivial(core.Hash64("c20", text, q.String()))
	}
	if e.WantSample() && needsEscape && len(text) < 300 {
		e.Sample(map[string]any{"file": text, "flags": w["flags"], "json": trunc(out, 700)})
	}
	if idx%100 == 1 && e.KlogBin != "" {
		c20External(e, f, text, w)
	}
}

func c20Arithmetic(recs []any) string {
	for i, raw := range recs {
		o, _ := raw.(map[string]any)
		tm, _ := obs.JInt(o, "total_mins")
		sm, _ := obs.JInt(o, "should_total_mins")
		dm, _ := obs.JInt(o, "diff_mins")
		if dm != tm-sm {
			return fmt.Sprintf("record #%d: diff_mins %d != total_mins %d - should_total_mins %d", i, dm, tm, sm)
		}
		ents, _ := obs.JArr(o, "entries")
		sum := 0
		for j, re := range ents {
			eo, _ := re.(map[string]any)
			etm, _ := obs.JInt(eo, "total_mins")
			sum += etm
			if typ, _ := obs.JStr(eo, "type"); typ == "range" {
				s, _ := obs.JInt(eo, "start_mins")
				en, _ := obs.JInt(eo, "end_mins")
				if etm != en-s {
					return fmt.Sprintf("record #%d entry #%d: total_mins %d != end_mins %d - start_mins %d", i, j, etm, en, s)
				}
			}
		}
		if sum != tm {
			return fmt.Sprintf("record #%d: total_mins %d != sum of entries %d", i, tm, sum)
		}
	}
	return ""
}

func c20External(e *core.Env, f, text string, w map[string]any) {
	if strings.Contains(text, "\x00") {
		return
	}
	b := obs.RunBin(obs.BinEnv{Bin: e.KlogBin, ConfigDir: e.Dir + "/bincfg"}, "json", f)
	if b.Err != nil || b.Code != 0 {
		e.Violation("binary-json-fails", fmt.Sprintf("real binary: klog json exited with %d: %s", b.Code, trunc(b.Stdout+b.Stderr, 400)), w)
		return
	}
	for _, dec := range [][]string{{"jq", "-e", "type==\"object\""}, {"python3", "-c", "import json,sys; d=json.loads(sys.stdin.buffer.read().decode('utf-8')); assert isinstance(d, dict)"}} {
		cmd := exec.Command(dec[0], dec[1:]...)
		cmd.Stdin = bytes.NewReader([]byte(b.Stdout))
		var se bytes.Buffer
		cmd.Stderr = &se
		if err := cmd.Run(); err != nil {
			if _, isExit := err.(*exec.ExitError); !isExit {
				e.Inconclusive("external decoder not available: " + dec[0])
				continue
			}
			e.Violation("json-rejected-by-independent-decoder", fmt.Sprintf("%s does not accept the output of `klog json`: %s\n%s", dec[0], trunc(se.String(), 300), trunc(b.Stdout, 500)), w)
			return
		}
		e.Count("outputs_accepted_by_"+dec[0], 1)
	}
}

func c20Invalid(e *core.Env, r *core.Rand, idx int64, text string) {
	if ref.Recognise(text).Verdict != ref.NonConforming {
		e.Count("mutants_discarded", 1)
		return
	}
	w := map[string]any{"text": text}
	f := writeFile(e.Dir, "c20bad.klg", text)
	env := obs.CLIEnv{ConfigDir: e.Dir + "/cfg", Cpus: r.PickInt(1, 3), Theme: "no_colour", Clock: obs.ClockAt(ref.Date{Y: 2024, M: 3, D: 15}, 700, 0)}
	args := []string{"json", f}
	if r.Bool() {
		args = []string{"json", "--pretty", f}
	}
	jr := obs.RunCLI(env, args...)
	if jr.Panic != nil {
		e.Violation("json-panic: "+jr.Panic.Site(), jr.Panic.Value, w)
		return
	}
	if jr.Code != 0 {
		e.Violation("json-fails-on-readable-input", fmt.Sprintf("`klog json` on an invalid but readable file exited with %d (it must emit the errors as JSON): %s", jr.Code, trunc(jr.Err, 300)), w)
		return
	}
	_, errsArr, rnull, enull, jerr := decodeJSONEnvelope(jr.Out)
	if jerr != nil {
		e.Violation("json-not-one-wellformed-document", fmt.Sprintf("%v\noutput: %s", jerr, trunc(jr.Out, 600)), w)
		return
	}
	if !rnull || enull {
		e.Violation("json-envelope", fmt.Sprintf("invalid input: records null=%v, errors null=%v", rnull, enull), w)
		return
	}
	pr := obs.RunCLI(env, "print", f)
	if pr.Panic != nil {
		e.Violation("terminal-report-panics: "+pr.Panic.Site(), pr.Panic.Value, w)
		return
	}
	tes, perr := obs.ParseTermErrors(obs.StripSGR(pr.Err))
	if perr != nil {
		e.Violation("terminal-report-malformed", perr.Error(), w)
		return
	}
	if len(tes) != len(errsArr) {
		e.Violation("json-vs-terminal-error-count", fmt.Sprintf("json shows %d errors, the terminal report %d", len(errsArr), len(tes)), w)
		return
	}
	for k, raw := range errsArr {
		o, _ := raw.(map[string]any)
		ln, _ := obs.JInt(o, "line")
		col, _ := obs.JInt(o, "column")
		lg, _ := obs.JInt(o, "length")
		title, _ := obs.JStr(o, "title")
		details, _ := obs.JStr(o, "details")
		te := tes[k]
		if ln != te.Line || col != te.Pos+1 || lg != te.Len || normWS(title+": "+details) != te.Message {
			e.Violation("json-error-differs-from-terminal-report", fmt.Sprintf("error #%d: json line %d column %d length %d message %q; terminal report line %d column %d length %d message %q",
				k, ln, col, lg, normWS(title+": "+details), te.Line, te.Pos+1, te.Len, te.Message), w)
			return
		}
	}
	e.Count("invalid_texts", 1)
	if len(errsArr) >= 2 {
		e.Nontrivial(core.Hash64("c20bad", text))
	}
}
