package props

import (
	"unicode/utf8"
	"fmt"
	"sort"
	"strconv"
	"strings"

	"github.com/jotaen/klog/klog"
	"github.com/jotaen/klog/klog/app/cli"
	"github.com/jotaen/klog/klog/app/cli/util"
	"github.com/jotaen/klog/klog/parser"
	"verifharness/core"
	"verifharness/gen"
	"verifharness/obs"
	"verifharness/ref"
)

// C14 — tags are recognised, matched and totalled as the specification defines.

var c14Alphabet = []string{"#", "=", "\"", "'", "_", "-", " ", ".", "a", "B", "é", "読", "7", "٣"}

func c14String(n int, k int64) string {
	var sb strings.Builder
	idx := make([]int, n)
	for i := n - 1; i >= 0; i-- {
		idx[i] = int(k % int64(len(c14Alphabet)))
		k /= int64(len(c14Alphabet))
	}
	for _, i := range idx {
		sb.WriteString(c14Alphabet[i])
	}
	return sb.String()
}

func c14Count(n int) int64 {
	c := int64(1)
	for i := 0; i < n; i++ {
		c *= int64(len(c14Alphabet))
	}
	return c
}

const c14Block = 2048

func init() {
	core.Register(&core.Prop{
		ID:    "C14",
		Level: "exploration",
		Rule: "(s) EVERY string of length 0..5 (quick) / 0..6 plus a 1/8 hash sample of length 7 (thorough) over the 14-symbol alphabet {# = \" ' _ - space . a B é 読 7 ٣} (quick: length 6 as a 1/3 hash sample) is placed as record summary, entry summary and continuation line of a parsed file; " +
			"the tags klog reports (name, value, order; as `klog json` spells them) must equal the reference scanner's. (a) generated files with redundant tags (same tag in record and entry, #a=1 #a=2 #a, #A/#a, quoted values with blanks): " +
			"`klog tags --values --count --decimal` rows must equal, per tag and per tag=value, the sum and number of the entries that carry it (record tags apply to every entry, each entry counted once per key), in name order; " +
			"and for every key `klog total --tag KEY --decimal` must equal that row (filter and accounting agree). non-trivial & distinct = summaries with >=1 recognised tag (by hash) and files with a tag present in both record and entry summary",
		Assumptions: []string{"`##name` (a name preceded by more than one '#') is left open by the specification and not judged", "letters with contested case mappings are not in the alphabet; name comparison is per-rune lower-casing"},
		Exhaustive:  func(tier string) bool { return false },
		Planned: func(tier string, seed uint64) int64 {
			n := int64(0)
			for l := 0; l <= 5; l++ {
				n += c14Count(l)
			}
			if tier == "thorough" {
				return n + c14Count(6) + c14Count(7)/8 + 150000
			}
			return n + c14Count(6)/3 + 6000
		},
		Run: runC14,
	})
}

func klogTagStrings(s interface{ Tags() *klog.TagSet }) []string { return s.Tags().ToStrings() }

func runC14(e *core.Env) {
	maxLen := e.N(6, 7)
	// section (s): blocks of strings
	var blocks []struct {
		n      int
		start  int64
		sample bool
	}
	for n := 0; n <= maxLen; n++ {
		for s := int64(0); s < c14Count(n); s += c14Block {
			blocks = append(blocks, struct {
				n      int
				start  int64
				sample bool
			}{n, s, n == 7 || (n == 6 && e.Quick())})
		}
	}
	nFiles := int64(e.N(6000, 150000))
	total := int64(len(blocks)) + nFiles
	serial := parser.NewSerialParser()
	for i := int64(0); i < total; i++ {
		if !e.Mine(i) {
			continue
		}
		if i < int64(len(blocks)) {
			b := blocks[i]
			e.Begin(i, []byte(fmt.Sprintf("strings of length %d from #%d", b.n, b.start)))
			cnt := int64(0)
			for k := b.start; k < b.start+c14Block && k < c14Count(b.n); k++ {
				if b.sample && core.Hash64("c14", fmt.Sprint(e.Seed, k))%uint64(e.N(3, 8)) != 0 {
					continue
				}
				s := c14String(b.n, k)
				cnt++
				c14Summary(e, serial, s)
			}
			if cnt > 0 {
				e.Evals(cnt)
			}
			e.Count("summaries", cnt)
			e.End(i)
			continue
		}
		r := core.NewRand(e.Seed, 14, uint64(i))
		d := gen.Document(r, gen.Opts{MaxRecs: 6, MinRecs: 1, MaxEntries: 5, Unicode: r.Chance(1, 3), Hostile: r.Chance(1, 4), OpenRanges: 1, Tags: 2, MaxHours: 20})
		if core.Hash64("c14-literal-values", fmt.Sprint(e.Seed, i))%20 == 0 {
			// values are compared literally: characters that mean something to pattern matchers, next to values such a pattern would match
			extra := "1000-01-01\n    1h #call=\"Why?\"\n    2h #call=\"Why!\"\n    3h #ref=\"[a]\"\n    4h #ref=a\n    5h #w=\"x*\"\n    6h #w=xyz\n    7h #p='a\\b'\n    8h #p=ab\n    9h #re=\"a.c\"\n    10h #re=abc\n    11h #v=\"^a$\"\n    12h #v=a\n    13h #pct=\"100%\"\n    14h #pct=\"100_\"\n"
			if x, ok := withAppended(d, extra); ok {
				d = x
				e.Count("files_with_pattern_like_tag_values", 1)
			}
		}
		e.Begin(i, []byte(d.Text))
		c14Accounting(e, r, d)
		e.End(i)
	}
}

func c14Summary(e *core.Env, p parser.Parser, s string) {
	text := "2020-01-01\nx" + s + "\n    1h " + s + "\n        y" + s + "\n"
	rs, _, errs := p.Parse(text)
	if errs != nil || len(rs) != 1 || len(rs[0].Entries()) != 1 {
		e.Violation("tag-carrier-rejected", fmt.Sprintf("the carrier document for summary %q was not accepted as one record with one entry", s), text)
		return
	}
	check := func(where string, got []string, lines []string) {
		tags, amb := ref.ScanSummaryTags(lines)
		if amb {
			e.Count("ambiguous_summaries_skipped", 1)
			return
		}
		want := make([]string, 0, len(tags))
		for _, t := range tags {
			want = append(want, ref.CanonicalTag(t))
		}
		if strings.Join(got, "\x00") != strings.Join(want, "\x00") {
			e.Violation("tags-recognised-differently", fmt.Sprintf("%s %q: klog recognises %q, the specification gives %q", where, lines, got, want), map[string]any{"summary": s, "text": text})
		}
		if len(tags) > 0 {
			e.Nontrivial(core.Hash64("c14s", where, s))
		}
	}
	var rsum, esum []string
	if pi := core.Guard(func() {
		rsum = klogTagStrings(rs[0].Summary())
		en := rs[0].Entries()[0]
		esum = klogTagStrings(en.Summary())
	}); pi != nil {
		e.Violation("tags-panic: "+pi.Site(), fmt.Sprintf("summary %q: %s", s, pi.Value), text)
		return
	}
	check("record summary", rsum, []string{"x" + s})
	check("entry summary", esum, []string{s, "y" + s})
}

type c14Row struct {
	total, count int
}

func c14Accounting(e *core.Env, r *core.Rand, d *gen.Out) {
	w := map[string]any{"text": d.Text}
	if hasTagAmbiguity(d.Doc) {
		e.Count("ambiguous_files_skipped", 1)
		return
	}
	f := writeFile(e.Dir, "c14.klg", d.Text)
	clock := obs.ClockAt(ref.Date{Y: 2024, M: 3, D: 15}, 600, 0)
	// expected rows
	want := map[ref.Tag]*c14Row{}
	type c14Entry struct {
		keys map[ref.Tag]bool
		mins int
	}
	var perEntry []c14Entry
	redundant := false
	for i := range d.Doc.Recs {
		rec := &d.Doc.Recs[i]
		rt, _ := ref.ScanSummaryTags(rec.Summary)
		for k := range rec.Entries {
			et, _ := ref.ScanSummaryTags(rec.Entries[k].Summary)
			for _, a := range rt {
				for _, b := range et {
					if a.Name == b.Name {
						redundant = true
					}
				}
			}
			ks := ref.TagKeys(append(append([]ref.Tag{}, rt...), et...))
			pe := c14Entry{keys: map[ref.Tag]bool{}, mins: rec.Entries[k].Minutes()}
			for key := range ks {
				pe.keys[key] = true
			}
			perEntry = append(perEntry, pe)
			for key := range ks {
				row := want[key]
				if row == nil {
					row = &c14Row{}
					want[key] = row
				}
				row.total += rec.Entries[k].Minutes()
				row.count++
			}
		}
	}
	res := runRO(e, &cli.Tags{Values: true, Count: true, DecimalArgs: util.DecimalArgs{Decimal: true}, WarnArgs: util.WarnArgs{NoWarn: true}, NoStyleArgs: util.NoStyleArgs{NoStyle: true},
		InputFilesArgs: util.InputFilesArgs{File: files(f)}}, r.PickInt(1, 3), "", "", clock)
	if res.Panic != nil || res.Err != nil {
		e.Violation("tags-command-fails", fmt.Sprintf("panic=%v err=%v", res.Panic != nil, res.Err), w)
		return
	}
	type gotRow struct {
		name, value  string
		total, count int
	}
	var got []gotRow
	cur := ""
	for _, line := range strings.Split(strings.TrimRight(res.Out, "\n"), "\n") {
		if line == "" {
			continue
		}
		trimmed := strings.TrimRight(line, " ")
		p := strings.LastIndex(trimmed, "(")
		if p < 0 || !strings.HasSuffix(trimmed, ")") {
			e.Violation("tags-output-malformed", fmt.Sprintf("row without count: %q\n%s", line, res.Out), w)
			return
		}
		cnt, err1 := strconv.Atoi(trimmed[p+1 : len(trimmed)-1])
		left := strings.TrimRight(trimmed[:p], " ")
		sp := strings.LastIndex(left, " ")
		tot, err2 := strconv.Atoi(left[sp+1:])
		if err1 != nil || err2 != nil || sp < 0 {
			e.Violation("tags-output-malformed", fmt.Sprintf("row not parseable: %q", line), w)
			return
		}
		label := strings.TrimRight(left[:sp], " ")
		if strings.HasPrefix(label, "#") {
			cur = strings.TrimPrefix(label, "#")
			got = append(got, gotRow{cur, "", tot, cnt})
		} else if strings.HasPrefix(label, " ") {
			got = append(got, gotRow{cur, label[1:], tot, cnt})
		} else {
			e.Violation("tags-output-malformed", fmt.Sprintf("row label not understood: %q", line), w)
			return
		}
	}
	// compare as maps, then order
	gotMap := map[ref.Tag]c14Row{}
	for _, g := range got {
		gotMap[ref.Tag{Name: g.name, Value: g.value}] = c14Row{g.total, g.count}
	}
	for key, row := range want {
		g, ok := gotMap[ref.Tag{Name: key.Name, Value: strings.TrimRight(key.Value, " ")}]
		if !ok {
			e.Violation("tags-row-missing", fmt.Sprintf("`klog tags -v -c` has no row for %s (expected total %d in %d entries)\n%s", ref.CanonicalTag(key), row.total, row.count, res.Out), w)
			return
		}
		if g.total != row.total || g.count != row.count {
			e.Violation("tags-row-wrong", fmt.Sprintf("row %s shows total %d in %d entries; the entries carrying it sum to %d in %d entries\n%s", ref.CanonicalTag(key), g.total, g.count, row.total, row.count, res.Out), w)
			return
		}
	}
	if len(gotMap) != len(want) && !c14ValueCollision(want) {
		e.Violation("tags-row-unexpected", fmt.Sprintf("`klog tags -v -c` shows %d rows, expected %d\n%s", len(gotMap), len(want), res.Out), w)
		return
	}
	// every tag and every tag=value has one row of its own (the order of the rows is not part of the property: klog
	// sorts by name+"="+value, which puts #t10 in front of #t1; an earlier version of this check demanded ascending
	// names and raised a false alarm on such names)
	seenRow := map[ref.Tag]bool{}
	for _, g := range got {
		k := ref.Tag{Name: g.name, Value: g.value}
		if seenRow[k] && !c14ValueCollision(want) {
			e.Violation("tags-row-duplicated", fmt.Sprintf("`klog tags -v -c` lists %s twice\n%s", ref.CanonicalTag(k), res.Out), w)
			return
		}
		seenRow[k] = true
	}
	// filter agrees with accounting
	keys := make([]ref.Tag, 0, len(want))
	for k := range want {
		keys = append(keys, k)
	}
	sort.Slice(keys, func(a, b int) bool { return keys[a].Name+"="+keys[a].Value < keys[b].Name+"="+keys[b].Value })
	for n := 0; n < 3 && len(keys) > 0; n++ {
		key := keys[r.Intn(len(keys))]
		kt, err := klog.NewTagFromString(ref.CanonicalTag(key))
		if err != nil {
			continue
		}
		tres := runRO(e, &cli.Total{FilterArgs: util.FilterArgs{Tags: []klog.Tag{kt}}, DecimalArgs: util.DecimalArgs{Decimal: true}, WarnArgs: util.WarnArgs{NoWarn: true}, NoStyleArgs: util.NoStyleArgs{NoStyle: true},
			InputFilesArgs: util.InputFilesArgs{File: files(f)}}, 1, "", "", clock)
		if tres.Panic != nil || tres.Err != nil {
			e.Violation("tag-filter-fails", fmt.Sprintf("klog total --tag %s failed", ref.CanonicalTag(key)), w)
			return
		}
		if n == 0 && !strings.HasPrefix(ref.CanonicalTag(key), "#-") && !strings.Contains(ref.CanonicalTag(key), "\\,") {
			// the same clause through the argument decoder of the full CLI
			cres := obs.RunCLI(obs.CLIEnv{ConfigDir: e.Dir + "/cfg", Cpus: 1, Theme: "no_colour", Clock: clock}, "total", "--decimal", "--no-style", "--no-warn", "--tag", strings.ReplaceAll(ref.CanonicalTag(key), ",", "\\,"), f)
			if cres.Panic != nil || cres.Code != 0 || cres.Out != tres.Out {
				e.Violation("tag-filter-cli-differs", fmt.Sprintf("`klog total --tag %s` through the full CLI (exit %d) prints\n%s\nthe command given the parsed tag prints\n%s", ref.CanonicalTag(key), cres.Code, trunc(cres.Out+cres.Err, 300), trunc(tres.Out, 300)), w)
				return
			}
			e.Count("tag_filters_also_through_full_cli", 1)
		}
		to, perr := parseTotalOutput(tres.Out)
		if perr != nil || to.Total != strconv.Itoa(want[key].total) {
			e.Violation("tag-filter-disagrees-with-accounting", fmt.Sprintf("`klog total --tag %s` = %s, but the entries carrying that tag sum to %d (the `klog tags` row)", ref.CanonicalTag(key), to.Total, want[key].total), w)
			return
		}
		e.Count("tag_filter_totals_checked", 1)
	}
	// the JSON view of the same file: every record's and entry's `tags` array lists exactly the recognised tags
	if jres := runRO(e, &cli.Json{InputFilesArgs: util.InputFilesArgs{File: files(f)}}, 1, "", "", clock); jres.Panic == nil && jres.Err == nil {
		if recs, _, rnull, enull, jerr := decodeJSONEnvelope(jres.Out); jerr == nil && !rnull && enull {
			wantRecs := make([]expectedRec, len(d.Doc.Recs))
			for i := range d.Doc.Recs {
				wantRecs[i] = expectedRec{Rec: &d.Doc.Recs[i], ClosedEnd: -1}
			}
			if diff := compareJSONRecords(recs, wantRecs, true, utf8.ValidString(d.Text)); diff != "" {
				e.Violation("json-tags-differ-from-recognised-tags", "`klog json`: "+diff, w)
				return
			}
			e.Count("json_views_checked", 1)
		}
	}
	// several --tag clauses at once: every clause has to hold for an entry (its own tags together with the record's); naming
	// a tag twice - in the same or in another notation - changes nothing; two values of one name are two clauses
	for n := 0; n < 2 && len(keys) > 0; n++ {
		k1 := keys[r.Intn(len(keys))]
		k2 := keys[r.Intn(len(keys))]
		switch r.Intn(3) {
		case 0:
			k2 = k1
		case 1: // another value of the same name, if there is one
			for _, c := range keys {
				if c.Name == k1.Name && c.Value != k1.Value && c.Value != "" && k1.Value != "" {
					k2 = c
					break
				}
			}
		}
		t1, err1 := klog.NewTagFromString(ref.CanonicalTag(k1))
		spelt2 := ref.CanonicalTag(k2)
		if isASCIIName(k2.Name) && r.Bool() {
			spelt2 = "#" + strings.ToUpper(k2.Name) + strings.TrimPrefix(spelt2, "#"+k2.Name)
		}
		t2, err2 := klog.NewTagFromString(spelt2)
		if err1 != nil || err2 != nil {
			continue
		}
		wantBoth := 0
		for _, pe := range perEntry {
			if pe.keys[k1] && pe.keys[k2] {
				wantBoth += pe.mins
			}
		}
		tres := runRO(e, &cli.Total{FilterArgs: util.FilterArgs{Tags: []klog.Tag{t1, t2}}, DecimalArgs: util.DecimalArgs{Decimal: true}, WarnArgs: util.WarnArgs{NoWarn: true}, NoStyleArgs: util.NoStyleArgs{NoStyle: true},
			InputFilesArgs: util.InputFilesArgs{File: files(f)}}, 1, "", "", clock)
		if tres.Panic != nil || tres.Err != nil {
			e.Violation("tag-filter-fails", fmt.Sprintf("klog total --tag %s --tag %s failed", ref.CanonicalTag(k1), spelt2), w)
			return
		}
		to, perr := parseTotalOutput(tres.Out)
		if perr != nil || to.Total != strconv.Itoa(wantBoth) {
			e.Violation("two-tag-clauses-disagree-with-accounting", fmt.Sprintf("`klog total --tag %s --tag %s` = %s, but the entries that carry both sum to %d", ref.CanonicalTag(k1), spelt2, to.Total, wantBoth), w)
			return
		}
		e.Count("two_clause_tag_filters_checked", 1)
	}
	e.Count("files", 1)
	if redundant {
		e.Nontrivial(core.Hash64("c14a", d.Text))
	}
	if e.WantSample() && redundant && len(d.Text) < 400 {
		e.Sample(map[string]any{"file": d.Text, "tags_output": res.Out})
	}
}

// c14ValueCollision: two expected values that only differ in trailing blanks cannot be told apart in the table.
func c14ValueCollision(want map[ref.Tag]*c14Row) bool {
	seen := map[ref.Tag]bool{}
	for k := range want {
		t := ref.Tag{Name: k.Name, Value: strings.TrimRight(k.Value, " ")}
		if seen[t] {
			return true
		}
		seen[t] = true
	}
	return false
}

func isASCIIName(s string) bool {
	for i := 0; i < len(s); i++ {
		if s[i] >= 0x80 {
			return false
		}
	}
	return s != ""
}
