package props

import (
	"encoding/json"
	"fmt"
	"sort"
	"strings"

	"github.com/jotaen/klog/klog/app/cli"
	"github.com/jotaen/klog/klog/app/cli/util"
	"verifharness/core"
	"verifharness/gen"
	"verifharness/obs"
	"verifharness/ref"
)

// C13 — filters and sorting select exactly the matching data and never alter it.

func init() {
	core.Register(&core.Prop{
		ID:    "C13",
		Level: "exploration",
		Rule: "generated valid files (unsorted, duplicate dates, tags with/without values and mixed case at record and entry level, unique id tokens in every summary) x 6 queries each: one date-clause family " +
			"(--date | --since/--after and/or --until/--before | --period of all four shapes | --today/--yesterday/--tomorrow/--this-*/--last-* incl. the undashed aliases) with boundary dates equal to record dates +-1, " +
			"plus optional 1-3 --tag clauses derived from the tags present (case/value variations), optional --entry-type (5 kinds), optional --sort asc|desc; virtual today anywhere in 0000-01-02..9999-12-30 such that the shortcut's period is representable. " +
			"observed through `klog json` (every field) and `klog print --no-style`; 1 in 8 queries through the full CLI (flag decoding). oracle: reference predicate over the generating model - selection, entry trimming, unchanged content, original order / date order " +
			"(order among equal dates free); for queries with several clause kinds the result must equal the intersection of the individual results (by id tokens). non-trivial & distinct = queries keeping a proper non-empty subset of records and trimming entries inside a kept record, by hash",
		Assumptions: []string{"a 0m duration under duration-positive/duration-negative and `##name` tag shapes are left open by the specification; such queries are not judged"},
		Planned:     func(tier string, seed uint64) int64 { return map[string]int64{"quick": 36000, "thorough": 1500000}[tier] },
		Run:         runC13,
	})
}

var c13Shortcuts = []string{"today", "yesterday", "tomorrow", "this-week", "thisweek", "last-week", "lastweek", "this-month", "thismonth", "last-month", "lastmonth",
	"this-quarter", "thisquarter", "last-quarter", "lastquarter", "this-year", "thisyear", "last-year", "lastyear"}

func c13GenQuery(r *core.Rand, doc *ref.Doc, today ref.Date) query {
	var q query
	switch r.Intn(6) {
	case 0:
		d := dateOfRecOrNear(r, doc)
		q.Date = &d
	case 1:
		if r.Chance(2, 3) {
			d := dateOfRecOrNear(r, doc)
			if r.Bool() {
				q.Since = &d
			} else {
				q.After = &d
			}
		}
		if r.Chance(2, 3) {
			d := dateOfRecOrNear(r, doc)
			if r.Bool() {
				q.Until = &d
			} else {
				q.Before = &d
			}
		}
	case 2:
		if len(doc.Recs) > 0 {
			d := doc.Recs[r.Intn(len(doc.Recs))].Date
			switch r.Intn(4) {
			case 0:
				q.Period = fmt.Sprintf("%04d", d.Y)
				q.PeriodSince, q.PeriodUntil = ref.PeriodBounds(ref.PYear, d)
			case 1:
				q.Period = fmt.Sprintf("%04d-%02d", d.Y, d.M)
				q.PeriodSince, q.PeriodUntil = ref.PeriodBounds(ref.PMonth, d)
			case 2:
				q.Period = fmt.Sprintf("%04d-Q%d", d.Y, ref.Quarter(d.M))
				q.PeriodSince, q.PeriodUntil = ref.PeriodBounds(ref.PQuarter, d)
			case 3:
				wy, ww := ref.ISOWeek(d.Y, d.M, d.D)
				if wy >= 0 && wy <= 9999 {
					if r.Bool() {
						q.Period = fmt.Sprintf("%04d-W%02d", wy, ww)
					} else {
						q.Period = fmt.Sprintf("%04d-W%d", wy, ww)
					}
					q.PeriodSince, q.PeriodUntil = ref.PeriodBounds(ref.PWeek, d)
				}
			}
		}
	case 3:
		q.Shortcut = c13Shortcuts[r.Intn(len(c13Shortcuts))]
	}
	if r.Chance(1, 2) {
		present := docTags(doc)
		for k := r.PickInt(1, 1, 2, 3); k > 0; k-- {
			t, arg := genTagQuery(r, present)
			q.Tags = append(q.Tags, t)
			q.TagArgs = append(q.TagArgs, arg)
		}
	}
	if r.Chance(1, 3) {
		q.EntryType = r.Pick("range", "open-range", "duration", "duration-positive", "duration-negative", "RANGE", "open_range")
	}
	if r.Chance(1, 3) {
		q.Sort = r.Pick("asc", "desc", "ASC", "DESC")
	}
	return q
}

// shortcutRepresentable: the period the shortcut denotes (and, for last-*, the previous one) lies inside 0000-01-01..9999-12-31 unclamped.
func shortcutRepresentable(sc string, today ref.Date) bool {
	s := strings.ReplaceAll(sc, "-", "")
	td := today.Days()
	if td-1 < ref.MinDay+0 || td+1 > ref.MaxDay {
		return false
	}
	kinds := map[string]ref.PeriodKind{"week": ref.PWeek, "month": ref.PMonth, "quarter": ref.PQuarter, "year": ref.PYear}
	for name, k := range kinds {
		if strings.HasSuffix(s, name) {
			since := td
			switch k {
			case ref.PWeek:
				since = td - (ref.Weekday(td) - 1)
				if since < ref.MinDay || since+6 > ref.MaxDay {
					return false
				}
			default:
				since, _ = ref.PeriodBounds(k, today)
			}
			if strings.HasPrefix(s, "last") {
				prevEnd := since - 1
				if prevEnd < ref.MinDay {
					return false
				}
				if k == ref.PWeek && prevEnd-6 < ref.MinDay {
					return false
				}
			}
		}
	}
	return true
}

func runC13(e *core.Env) {
	total := int64(e.N(6000, 250000))
	for i := int64(0); i < total; i++ {
		if !e.Mine(i) {
			continue
		}
		r := core.NewRand(e.Seed, 13, uint64(i))
		var today ref.Date
		switch r.Intn(7) {
		case 6: // the first weeks of the representable range (year 0000): weekday arithmetic with negative intermediate values
			today = ref.Date{Y: 0, M: r.PickInt(1, 1, 2, 3), D: r.Range(2, 28)}
		case 5: // February / March of century years (leap and not): the month's last day is where calendar shortcuts go wrong
			y := r.PickInt(1900, 2100, 2200, 2300, 2000, 2400, 100, 9900)
			m := r.PickInt(2, 2, 3)
			today = ref.Date{Y: y, M: m, D: r.Range(1, ref.DaysInMonth(y, m))}
		case 0:
			today = ref.DateFromDays(r.Range(ref.MinDay+1, ref.MaxDay-1))
		case 1:
			y := r.PickInt(0, 1, 9998, 9999, 2024)
			today = ref.Date{Y: y, M: r.PickInt(1, 12, 6), D: r.PickInt(1, 2, 28, 30)}
			if today.Days() <= ref.MinDay {
				today = ref.DateFromDays(ref.MinDay + 1)
			}
			if today.Days() >= ref.MaxDay {
				today = ref.DateFromDays(ref.MaxDay - 1)
			}
		case 2:
			today = obs.DSTDates[r.Intn(len(obs.DSTDates))] // 23/25-hour days: --yesterday/--tomorrow must be calendar days
		default:
			y := r.Range(1990, 2040)
			m := r.Range(1, 12)
			today = ref.Date{Y: y, M: m, D: r.Range(1, ref.DaysInMonth(y, m))}
			if r.Chance(1, 3) { // ISO week / year boundary
				today = ref.DateFromDays(ref.DaysFromCivil(y, 12, 28) + r.Intn(8))
			}
		}
		o := gen.Opts{MaxRecs: 9, MinRecs: 1, MaxEntries: 5, Unicode: r.Chance(1, 3), Hostile: r.Chance(1, 3), OpenRanges: 1, Tags: r.PickInt(1, 2, 2), IDs: true, Near: &today, NearSpread: r.PickInt(3, 10, 40, 400)}
		d := gen.Document(r, o)
		f := writeFile(e.Dir, "c13.klg", d.Text)
		minute := r.Intn(1440)
		if obs.IsDSTDate(today) && minute%3 != 0 {
			minute = obs.NearMidnight(minute) // where "24 hours ago" and "yesterday" part ways
		}
		clock := obs.ClockAt(today, minute, 0)
		if r.Chance(1, 5) {
			// a period clause that names no period (week 53 of a year that has 52, week 0, month 13, quarter 5 ...) selects nothing:
			// it is refused, whatever lies next to it in the calendar
			y := today.Y
			_, lastWeek := ref.ISOWeek(y, 12, 28)
			pats := []string{fmt.Sprintf("%04d-W00", y), fmt.Sprintf("%04d-W54", y), fmt.Sprintf("%04d-13", y), fmt.Sprintf("%04d-00", y), fmt.Sprintf("%04d-Q5", y), fmt.Sprintf("%04d-Q0", y)}
			if lastWeek == 52 {
				pats = append(pats, fmt.Sprintf("%04d-W53", y))
			}
			pat := pats[r.Intn(len(pats))]
			e.Begin(total*6+i, []byte("period "+pat+"\n"+d.Text))
			res := obs.RunCLI(obs.CLIEnv{ConfigDir: e.Dir + "/cfg", Cpus: 1, Theme: "no_colour", Clock: clock}, "print", "--no-style", "--period", pat, f)
			if res.Panic != nil {
				e.Violation("period-clause-panic: "+res.Panic.Site(), fmt.Sprintf("klog print --period %s panicked: %s", pat, res.Panic.Value), map[string]any{"text": d.Text})
			} else if res.Code == 0 {
				e.Violation("impossible-period-accepted", fmt.Sprintf("`klog print --period %s` succeeded although no such period exists (year %04d has %d ISO weeks); it printed:\n%s", pat, y, lastWeek, trunc(res.Out, 400)), map[string]any{"text": d.Text})
			} else {
				e.Count("impossible_period_clauses_refused", 1)
			}
			e.End(total*6 + i)
		}
		for qi := 0; qi < 6; qi++ {
			q := c13GenQuery(r, d.Doc, today)
			if q.Shortcut != "" && !shortcutRepresentable(q.Shortcut, today) {
				q.Shortcut = ""
			}
			caseID := i*6 + int64(qi)
			e.Begin(caseID, []byte(fmt.Sprintf("today=%s query=%s\n%s", today, q.String(), d.Text)))
			c13Check(e, r, d, f, q, today, clock, caseID)
			e.End(caseID)
		}
	}
}

func c13RunJSON(e *core.Env, r *core.Rand, f string, q query, clock timeT, viaCLI bool, cpus int) (string, string) {
	if viaCLI && q.cliOK() {
		args := append(append([]string{"json"}, q.Args()...), f)
		res := obs.RunCLI(obs.CLIEnv{ConfigDir: e.Dir + "/cfg", Cpus: cpus, Clock: clock}, args...)
		if res.Panic != nil {
			return "", "panic: " + res.Panic.Value + " @ " + res.Panic.Site()
		}
		if res.Code != 0 {
			return "", fmt.Sprintf("exit %d: %s", res.Code, res.Err)
		}
		return res.Out, ""
	}
	fa, sa, ok := buildFilterArgs(q)
	if !ok {
		return "", "harness: undecodable query"
	}
	res := runRO(e, &cli.Json{FilterArgs: fa, SortArgs: sa, InputFilesArgs: util.InputFilesArgs{File: files(f)}}, cpus, "", "", clock)
	if res.Panic != nil {
		return "", "panic: " + res.Panic.Value + " @ " + res.Panic.Site()
	}
	if res.Err != nil {
		return "", "error: " + res.Err.Error() + " " + res.Err.Details()
	}
	return res.Out, ""
}

// idsOf extracts the (record id → entry ids) selection from a JSON result via the unique id tokens.
func idsOf(recs []any) map[string][]string {
	out := map[string][]string{}
	for _, raw := range recs {
		o, _ := raw.(map[string]any)
		s, _ := obs.JStr(o, "summary")
		rid := firstIDToken(s)
		ents, _ := obs.JArr(o, "entries")
		ids := []string{}
		for _, re := range ents {
			eo, _ := re.(map[string]any)
			es, _ := obs.JStr(eo, "summary")
			ids = append(ids, firstIDToken(es))
		}
		out[rid] = ids
	}
	return out
}

func firstIDToken(s string) string {
	i := strings.Index(s, "[r")
	if i < 0 {
		return ""
	}
	j := strings.Index(s[i:], "]")
	if j < 0 {
		return ""
	}
	return s[i : i+j+1]
}

func c13Check(e *core.Env, r *core.Rand, d *gen.Out, f string, q query, today ref.Date, clock timeT, caseID int64) {
	w := map[string]any{"text": d.Text, "query": q.String(), "today": today.String()}
	want, undecided := q.apply(d.Doc, today)
	if undecided || (len(q.Tags) > 0 && hasTagAmbiguity(d.Doc)) {
		e.Count("undecided_queries_skipped", 1)
		return
	}
	viaCLI := caseID%8 == 0
	cpus := r.PickInt(1, 1, 4)
	out, problem := c13RunJSON(e, r, f, q, clock, viaCLI, cpus)
	if problem != "" {
		key := "filter-command-fails"
		if strings.HasPrefix(problem, "panic") {
			key = "filter-command-panics: " + problem[strings.LastIndex(problem, "@")+1:]
		}
		e.Violation(key, fmt.Sprintf("`klog json %s` (today %s): %s", q.String(), today, problem), w)
		return
	}
	recs, _, rnull, _, jerr := decodeJSONEnvelope(out)
	if jerr != nil || rnull {
		e.Violation("json-envelope", fmt.Sprintf("json output unusable: %v", jerr), w)
		return
	}
	dup := d.Feat["dup_dates"]
	if q.Sort != "" && dup {
		if msg := c13CompareSorted(recs, want, strings.EqualFold(q.Sort, "asc")); msg != "" {
			e.Violation("sorted-selection-wrong", fmt.Sprintf("`klog json %s` (today %s): %s", q.String(), today, msg), w)
			return
		}
	} else if diff := compareJSONRecords(recs, want, true, true); diff != "" {
		e.Violation("selection-wrong", fmt.Sprintf("`klog json %s` (today %s): %s\nexpected selection (record date[entry indices]): %s", q.String(), today, diff, fmtSel(want)), w)
		return
	}
	// print path: the filtered print must be the canonical rendering of the same selection
	if caseID%3 == 0 && !(q.Sort != "" && dup) {
		fa, sa, _ := buildFilterArgs(q)
		res := runRO(e, &cli.Print{FilterArgs: fa, SortArgs: sa, WarnArgs: util.WarnArgs{NoWarn: true}, NoStyleArgs: util.NoStyleArgs{NoStyle: true}, InputFilesArgs: util.InputFilesArgs{File: files(f)}}, cpus, "", "", clock)
		if res.Panic != nil || res.Err != nil {
			e.Violation("filter-command-fails", fmt.Sprintf("`klog print %s` failed: panic=%v err=%v", q.String(), res.Panic != nil, res.Err), w)
			return
		}
		sel := &ref.Doc{}
		for _, x := range want {
			rc := x.Rec.Clone()
			var ents []ref.Ent
			for _, k := range x.Entries {
				ents = append(ents, rc.Entries[k])
			}
			rc.Entries = ents
			sel.Recs = append(sel.Recs, rc)
		}
		wantOut := ""
		if len(sel.Recs) > 0 {
			wantOut = "\n" + sel.Canonical() + "\n"
		}
		if res.Out != wantOut {
			e.Violation("filtered-print-wrong", fmt.Sprintf("`klog print --no-style %s` (today %s) printed\n%s\nexpected\n%s", q.String(), today, trunc(res.Out, 1000), trunc(wantOut, 1000)), w)
			return
		}
		e.Count("print_path_checked", 1)
	}
	// conjunction == intersection of the individual clause results (observed on klog's own outputs)
	kinds := 0
	dateQ, tagQ, typeQ := query{Date: q.Date, Since: q.Since, Until: q.Until, After: q.After, Before: q.Before, Period: q.Period, PeriodSince: q.PeriodSince, PeriodUntil: q.PeriodUntil, Shortcut: q.Shortcut},
		query{Tags: q.Tags, TagArgs: q.TagArgs}, query{EntryType: q.EntryType}
	hasDate := len(dateQ.Args()) > 0
	if hasDate {
		kinds++
	}
	if len(q.Tags) > 0 {
		kinds++
	}
	if q.EntryType != "" {
		kinds++
	}
	if kinds >= 2 && caseID%2 == 0 {
		conj := idsOf(recs)
		var parts []map[string][]string
		for _, pq := range []query{dateQ, tagQ, typeQ} {
			if len(pq.Args()) == 0 {
				continue
			}
			po, prob := c13RunJSON(e, r, f, pq, clock, false, 1)
			if prob != "" {
				return
			}
			prec, _, _, _, perr := decodeJSONEnvelope(po)
			if perr != nil {
				return
			}
			parts = append(parts, idsOf(prec))
		}
		inter := map[string][]string{}
		for rid, ents := range parts[0] {
			keep := ents
			present := true
			for _, p := range parts[1:] {
				oe, ok := p[rid]
				if !ok {
					present = false
					break
				}
				set := map[string]bool{}
				for _, x := range oe {
					set[x] = true
				}
				var k2 []string
				for _, x := range keep {
					if set[x] {
						k2 = append(k2, x)
					}
				}
				keep = k2
			}
			if present && (len(keep) > 0 || (len(q.Tags) == 0 && q.EntryType == "")) {
				inter[rid] = keep
			} else if present && len(keep) == 0 && q.EntryType == "" && len(ents) == 0 {
				inter[rid] = keep // record without entries kept by its own summary tags
			}
		}
		if fmt.Sprint(sortedMap(conj)) != fmt.Sprint(sortedMap(inter)) {
			e.Violation("conjunction-is-not-intersection", fmt.Sprintf("`klog json %s` returns %v, the intersection of the individual clause results is %v", q.String(), sortedMap(conj), sortedMap(inter)), w)
			return
		}
		e.Count("conjunctions_checked_against_intersection", 1)
	}
	e.Count("queries", 1)
	if viaCLI {
		e.Count("queries_via_full_cli", 1)
	}
	trimmed := false
	for _, x := range want {
		if len(x.Entries) < len(x.Rec.Entries) {
			trimmed = true
		}
	}
	if len(want) > 0 && len(want) < len(d.Doc.Recs) && trimmed {
		e.Nontrivial(core.Hash64("c13", d.Text, q.String(), today.String()))
	}
	if len(want) > 0 && len(want) < len(d.Doc.Recs) {
		e.Count("queries_selecting_a_proper_subset", 1)
	}
	if e.WantSample() && trimmed && len(d.Text) < 500 {
		e.Sample(map[string]any{"file": d.Text, "today": today.String(), "query": q.String(), "expected_selection": fmtSel(want)})
	}
}

func sortedMap(m map[string][]string) []string {
	var out []string
	for k, v := range m {
		out = append(out, k+":"+strings.Join(v, ","))
	}
	sort.Strings(out)
	return out
}

// c13CompareSorted: same multiset of records, dates monotone (order among equal dates is free).
func c13CompareSorted(recs []any, want []expectedRec, asc bool) string {
	if len(recs) != len(want) {
		return fmt.Sprintf("%d records, expected %d", len(recs), len(want))
	}
	prev := ""
	for i, raw := range recs {
		o, _ := raw.(map[string]any)
		ds, _ := obs.JStr(o, "date")
		dd, _, ok := ref.ParseDate(ds)
		if !ok {
			return "unparseable date " + ds
		}
		key := fmt.Sprintf("%08d", dd.Days()-ref.MinDay)
		if i > 0 && ((asc && key < prev) || (!asc && key > prev)) {
			return fmt.Sprintf("records are not in %v date order at position %d", map[bool]string{true: "ascending", false: "descending"}[asc], i)
		}
		prev = key
	}
	// match each expected record with an unused actual one that compares equal
	used := make([]bool, len(recs))
	for _, wv := range want {
		found := false
		for k, raw := range recs {
			if used[k] {
				continue
			}
			if compareJSONRecords([]any{raw}, []expectedRec{wv}, true, true) == "" {
				used[k], found = true, true
				break
			}
		}
		if !found {
			b, _ := json.Marshal(wv.Rec.Summary)
			return fmt.Sprintf("expected record %s %s is missing or altered", ref.FormatDate(wv.Rec.Date, true), b)
		}
	}
	return ""
}
