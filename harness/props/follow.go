package props

import (
	"fmt"
	"os"
	"strconv"
	"strings"
	"time"

	"github.com/jotaen/klog/klog/app/cli"
	"github.com/jotaen/klog/klog/app/cli/util"
	"verifharness/core"
	"verifharness/gen"
	"verifharness/obs"
	"verifharness/ref"
)

// todaySplit is the reference's answer for `klog today` at a given instant.
type todaySplit struct {
	Label      string // Today / Yesterday
	Cur        string // minutes, or n/a
	Other, All int
	Closeable  bool // false: --now must be refused at this instant
}

func todayExpectation(doc *ref.Doc, today ref.Date, minute int, now bool) todaySplit {
	extra := make([]int, len(doc.Recs))
	if now {
		ex, _, ok := nowClosing(doc, today, minute)
		if !ok {
			return todaySplit{}
		}
		extra = ex
	}
	wantCur, wantOther, haveToday, haveYesterday := 0, 0, false, false
	for i := range doc.Recs {
		switch doc.Recs[i].Date.Days() {
		case today.Days():
			haveToday = true
		case today.Days() - 1:
			haveYesterday = true
		}
	}
	for i := range doc.Recs {
		t := doc.Recs[i].Total() + extra[i]
		dd := doc.Recs[i].Date.Days()
		if (haveToday && dd == today.Days()) || (!haveToday && haveYesterday && dd == today.Days()-1) {
			wantCur += t
		} else {
			wantOther += t
		}
	}
	s := todaySplit{Label: "Today", Cur: strconv.Itoa(wantCur), Other: wantOther, All: wantCur + wantOther, Closeable: true}
	if !haveToday && haveYesterday {
		s.Label = "Yesterday"
	}
	if !haveToday && !haveYesterday {
		s.Cur = "n/a"
	}
	return s
}

func parseTodayFrame(out string) (label, cur, other, all string) {
	for _, l := range strings.Split(out, "\n") {
		t := strings.Fields(l)
		if len(t) < 2 {
			continue
		}
		switch t[0] {
		case "Today", "Yesterday":
			label, cur = t[0], t[1]
		case "Other":
			other = t[1]
		case "All":
			all = t[1]
		}
	}
	return
}

// checkFollow drives `klog today --follow` through hook H2: ONE context evaluates the same input several times at
// advancing instants of the virtual clock (and, in some cases, after the file has been replaced in between). Every
// frame must show what a fresh evaluation at that instant shows: nothing may be carried over from frame to frame.
func checkFollow(e *core.Env, r *core.Rand, d *gen.Out, f string, today ref.Date, minute, second int, w map[string]any) bool {
	now := r.Chance(3, 4)
	nFrames := r.Range(2, 5)
	offsets := make([]int, nFrames) // seconds after the first frame
	for k := 1; k < nFrames; k++ {
		offsets[k] = offsets[k-1] + r.PickInt(1, 1, 59, 60, 61, 600, 3600)
	}
	clock0 := obs.ClockAt(today, minute, second)
	// an edit between two frames (the user saves the file while `--follow` is running)
	var d2 *gen.Out
	swapAt := -1
	if r.Chance(1, 4) {
		d2 = gen.Document(r, gen.Opts{MaxRecs: 4, MinRecs: 1, MaxEntries: 4, OpenRanges: 1, Near: &today, NearSpread: 2, MaxHours: 12})
		swapAt = r.Range(1, nFrames-1)
	}
	type frameExp struct {
		at   time.Time
		want todaySplit
	}
	exps := make([]frameExp, nFrames)
	for k := range exps {
		at := clock0.Add(time.Duration(offsets[k]) * time.Second)
		doc := d.Doc
		if swapAt >= 0 && k >= swapAt {
			doc = d2.Doc
		}
		day := ref.Date{Y: at.Year(), M: int(at.Month()), D: at.Day()}
		exps[k] = frameExp{at: at, want: todayExpectation(doc, day, at.Hour()*60+at.Minute(), now)}
		if !exps[k].want.Closeable {
			return true // an instant at which --now has to be refused: that is the one-shot checks' business
		}
	}
	ctx, _, err := obs.NewCtx(obs.CtxOpts{ConfigDir: e.Dir + "/cfg", Cpus: r.PickInt(1, 3), Theme: "no_colour", Clock: clock0})
	if err != nil {
		panic("harness: " + err.Error())
	}
	var frames []string
	iter := 0
	ctx.OnPrint = func(s string) {
		if s == "\033[H\033[J" {
			if iter > 0 {
				frames = append(frames, ctx.Out.String())
			}
			ctx.Out.Reset()
			if iter < nFrames {
				ctx.Clock = exps[iter].at
				if iter == swapAt {
					if werr := os.WriteFile(f, []byte(d2.Text), 0644); werr != nil {
						panic("harness: " + werr.Error())
					}
				}
			}
			iter++
		}
	}
	util.SetVerifRepeatHooks(&util.VerifRepeatHooks{Interval: time.Microsecond, AfterIteration: func(counter int64) bool { return int(counter) >= nFrames }})
	defer util.SetVerifRepeatHooks(nil)
	cmd := &cli.Today{Follow: true, NowArgs: util.NowArgs{Now: now}, DecimalArgs: util.DecimalArgs{Decimal: true}, WarnArgs: util.WarnArgs{NoWarn: true}, NoStyleArgs: util.NoStyleArgs{NoStyle: true},
		InputFilesArgs: util.InputFilesArgs{File: files(f)}}
	var runErr error
	pi := core.Guard(func() {
		if aerr := cmd.Run(ctx); aerr != nil {
			runErr = aerr
		}
	})
	frames = append(frames, ctx.Out.String())
	if swapAt >= 0 { // put the original text back for the caller
		_ = os.WriteFile(f, []byte(d.Text), 0644)
	}
	w["follow_frames"] = frames
	if pi != nil {
		e.Violation("follow-panic: "+pi.Site(), "`klog today --follow` panicked: "+pi.Value, w)
		return false
	}
	if runErr != nil || len(frames) != nFrames {
		e.Violation("follow-fails", fmt.Sprintf("`klog today --follow` (now=%v) produced %d of %d frames, error: %v", now, len(frames), nFrames, runErr), w)
		return false
	}
	for k, fr := range frames {
		label, cur, other, all := parseTodayFrame(fr)
		x := exps[k].want
		if label != x.Label || cur != x.Cur || other != strconv.Itoa(x.Other) || all != strconv.Itoa(x.All) {
			swapped := ""
			if swapAt >= 0 && k >= swapAt {
				swapped = " (after the file was replaced before frame " + strconv.Itoa(swapAt+1) + ")"
			}
			e.Violation("follow-frame-wrong", fmt.Sprintf("`klog today --follow` (now=%v), frame %d of %d at %s%s shows %s=%s Other=%s All=%s; a fresh evaluation at that instant gives %s=%s Other=%d All=%d",
				now, k+1, nFrames, exps[k].at.Format("2006-01-02T15:04:05"), swapped, label, cur, other, all, x.Label, x.Cur, x.Other, x.All), w)
			return false
		}
	}
	e.Count("follow_runs", 1)
	e.Count("follow_frames", int64(nFrames))
	if swapAt >= 0 {
		e.Count("follow_runs_with_file_replaced", 1)
	}
	return true
}
