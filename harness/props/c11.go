package props

import (
	"fmt"
	"os"
	"sort"
	"strings"

	"verifharness/core"
	"verifharness/ref"
)

// C11 — inserted text follows the file's own style, deterministically.

func init() {
	core.Register(&core.Prop{
		ID:    "C11",
		Level: "exploration",
		Rule: "style matrices: files of 0-6 records in which every record independently exhibits (or, as a headline-only / duration-only record, does not exhibit) an indentation {2,3,4 spaces, tab}, a line ending {LF, CRLF}, a date separator {-,/}, a clock convention {24h,12h}, a dash spacing and a placeholder length, " +
			"with whitespace-only lines (spaces/tabs) around records; few records and independent draws make two-way and three-way ties frequent. x every mutating command x target {record exhibiting a style, record exhibiting none, absent record} x config {none, date_format, time_convention, both} x explicit --date/--time or automatic. " +
			"oracle: (a) the command is repeated R=24 times on the same bytes (hostile to map-iteration and goroutine-arrival order) - all resulting files must be byte-identical; (b) every inserted line (found with the harness's own line matcher) must end in a line ending the target record exhibits, else one the other records exhibit, else LF, " +
			"and inserted entries must use an indentation the target exhibits, else one another record exhibits, else four spaces; (c) a generated date/time must use the separator / clock convention / dash spacing / placeholder length permitted the same way unless --date/--time was explicit (taken as typed) or date_format/time_convention is configured; " +
			"(d) the result is accepted by klog's parser and by the line automaton. non-trivial & distinct = cases in which >=2 distinct styles are exhibited in the file and the target record exhibits none of the property in question, by hash",
		Assumptions: []string{"membership in the permitted set is demanded, not klog's particular election rule (majority / first / last)"},
		Planned:     func(tier string, seed uint64) int64 { return map[string]int64{"quick": 20000, "thorough": 400000}[tier] },
		Run:         runC11,
	})
}

type c11Rec struct {
	date            ref.Date
	dashes          bool
	indent, eol     string
	kind            int // 0 headline only, 1 durations only, 2 ranges, 3 ranges + open range, 4 open range followed by a range
	h12, dashSpaces bool
	extraQ          int
	summary         bool
}

// c11Doc builds a style-matrix document.
func c11Doc(r *core.Rand, today ref.Date) (string, []c11Rec) {
	n := r.PickInt(0, 1, 2, 2, 3, 3, 4, 5, 6)
	var recs []c11Rec
	// a long tail (1 case in 16): more than a hundred recent records that exhibit no entry style at all (days off) or no
	// time style (durations only) - the styles of the file are then exhibited by old records only
	tail, tailKind := 0, 0
	if n > 0 && r.Chance(1, 16) {
		tail, tailKind = r.PickInt(101, 104, 130), r.PickInt(0, 0, 1)
	}
	day := today.Days() - r.Range(0, 2) - n - tail
	for i := 0; i < n; i++ {
		day += r.PickInt(1, 1, 1, 2)
		if i > 0 && core.Hash64("c11-same-date", fmt.Sprint(day, n, i))%4 == 0 {
			day = recs[i-1].date.Days() // several records may carry the same date: each of them is a record of the file like any other
		}
		recs = append(recs, c11Rec{date: ref.DateFromDays(day), dashes: r.Chance(2, 3), indent: r.Pick("    ", "  ", "   ", "\t"), eol: r.Pick("\n", "\n", "\r\n"),
			kind: r.PickInt(0, 1, 2, 2, 3, 3, 4), h12: r.Chance(1, 3), dashSpaces: r.Chance(2, 3), extraQ: r.PickInt(0, 0, 2, 4), summary: r.Chance(1, 3)})
	}
	if tail > 0 {
		// the tail continues the style of the last regular record where it exhibits one (so ties stay rare and the
		// old records' agreement is what an election has to find)
		last := recs[len(recs)-1]
		if r.Bool() {
			for i := range recs { // unanimous old records
				recs[i].indent, recs[i].h12, recs[i].dashSpaces, recs[i].extraQ, recs[i].dashes, recs[i].eol = last.indent, last.h12, last.dashSpaces, last.extraQ, last.dashes, last.eol
			}
		}
		for i := 0; i < tail; i++ {
			day++
			recs = append(recs, c11Rec{date: ref.DateFromDays(day), dashes: last.dashes, indent: last.indent, eol: last.eol, kind: tailKind, summary: i%7 == 0})
		}
	}
	var sb strings.Builder
	ws := func(eol string) {
		if r.Chance(1, 3) {
			sb.WriteString(r.Pick("    ", "\t", "  ", " ", "   ", "\t\t") + eol)
		}
	}
	for i, rc := range recs {
		if i == 0 {
			ws(rc.eol)
		} else {
			sb.WriteString(r.Pick("", "", "  ", "\t") + rc.eol)
			ws(rc.eol)
		}
		sb.WriteString(ref.FormatDate(rc.date, rc.dashes) + rc.eol)
		if rc.summary {
			// (sometimes a summary line made only of characters that are white space to many libraries, but not blank characters of the format)
			sb.WriteString([]string{"notes for the day", "notes for the day", "notes for the day", "\u2028", "\f", "\u0085\v"}[core.Hash64("c11-summary", fmt.Sprint(rc.date, i))%6] + rc.eol)
		}
		sp := ""
		if rc.dashSpaces {
			sp = " "
			// any number of spaces may surround the dash; what a record exhibits is "with spaces"
			if core.Hash64("c11-wide", fmt.Sprint(rc.date, rc.indent, rc.extraQ))%5 == 0 {
				sp = "  "
			}
		}
		tm := func(off int) string { return ref.FormatTime(ref.TimeV{Off: off, H12: rc.h12}) }
		cont := ""
		if r.Chance(1, 3) {
			cont = rc.indent + rc.indent + "and some more text" + rc.eol // the record's last entry has a multi-line summary
		}
		switch rc.kind {
		case 1:
			sb.WriteString(rc.indent + "1h30m work" + rc.eol + rc.indent + "-15m" + rc.eol + cont)
		case 2:
			sb.WriteString(rc.indent + tm(480) + sp + "-" + sp + tm(540) + " morning" + rc.eol + rc.indent + "2h" + rc.eol + cont)
		case 4:
			sb.WriteString(rc.indent + tm(600) + sp + "-" + sp + strings.Repeat("?", 1+rc.extraQ) + " ongoing #x" + rc.eol + rc.indent + tm(720) + sp + "-" + sp + tm(750) + " lunch" + rc.eol + cont)
		case 3:
			sb.WriteString(rc.indent + tm(420) + sp + "-" + sp + tm(480) + rc.eol + rc.indent + tm(600) + sp + "-" + sp + strings.Repeat("?", 1+rc.extraQ) + " ongoing #x" + rc.eol + cont)
		}
	}
	text := sb.String()
	if len(recs) > 0 && r.Chance(1, 4) {
		text = strings.TrimSuffix(strings.TrimSuffix(text, "\n"), "\r")
	}
	return text, recs
}

// styleFacts are the styles a recognised record exhibits.
type styleFacts struct {
	indent  map[string]bool
	eol     map[string]bool
	dashes  map[bool]bool
	h12     map[bool]bool
	spacing map[bool]bool
	extraQ  map[int]bool
}

func newFacts() styleFacts {
	return styleFacts{map[string]bool{}, map[string]bool{}, map[bool]bool{}, map[bool]bool{}, map[bool]bool{}, map[int]bool{}}
}

func factsOf(rec *ref.Recognition, i int) styleFacts {
	f := newFacts()
	info := rec.Recs[i]
	if info.Indent != "" {
		f.indent[info.Indent] = true
	}
	for l := info.FirstLine; l <= info.LastLine; l++ {
		if rec.Lines[l].Ending != "" {
			f.eol[rec.Lines[l].Ending] = true
		}
	}
	r := &rec.Doc.Recs[i]
	f.dashes[r.Dashes] = true
	for k := range r.Entries {
		en := &r.Entries[k]
		switch en.Kind {
		case ref.KRange:
			f.h12[en.Start.H12], f.h12[en.End.H12] = true, true
			f.spacing[en.DashSpaces] = true
		case ref.KOpen:
			f.h12[en.Start.H12] = true
			f.spacing[en.DashSpaces] = true
			f.extraQ[en.ExtraQ] = true
		}
	}
	return f
}

func union(dst, src styleFacts) {
	for k := range src.indent {
		dst.indent[k] = true
	}
	for k := range src.eol {
		dst.eol[k] = true
	}
	for k := range src.dashes {
		dst.dashes[k] = true
	}
	for k := range src.h12 {
		dst.h12[k] = true
	}
	for k := range src.spacing {
		dst.spacing[k] = true
	}
	for k := range src.extraQ {
		dst.extraQ[k] = true
	}
}

func runC11(e *core.Env) {
	total := int64(e.N(20000, 400000))
	for i := int64(0); i < total; i++ {
		if !e.Mine(i) {
			continue
		}
		r := core.NewRand(e.Seed, 11, uint64(i))
		today := ref.Date{Y: 2024, M: r.Range(1, 12), D: r.Range(3, 27)}
		text, _ := c11Doc(r, today)
		rec := ref.Recognise(text)
		if rec.Verdict != ref.Conforming {
			e.Inconclusive("harness: style document not conforming: " + rec.Rule)
			continue
		}
		env := MEnv{Today: today, Minute: r.PickInt(9*60+5, 12*60+30, 13*60+45, 0*60+20, 23*60+10), Second: 0, Cpus: r.PickInt(1, 1, 4)}
		switch r.Intn(5) {
		case 0:
			env.CfgDateFormat = r.Pick("YYYY-MM-DD", "YYYY/MM/DD")
		case 1:
			env.CfgTimeConv = r.Pick("24h", "12h")
		case 2:
			env.CfgDateFormat, env.CfgTimeConv = r.Pick("YYYY-MM-DD", "YYYY/MM/DD"), r.Pick("24h", "12h")
		}
		cmd := c11Command(r, rec.Doc, env)
		e.Begin(i, []byte(fmt.Sprintf("clock=%s config=%q cmd=%s\n%s", env.Clock().Format("2006-01-02T15:04"), env.ConfigFile(), cmd.String(), text)))
		c11Check(e, r, text, rec, cmd, env)
		e.End(i)
	}
}

func c11Command(r *core.Rand, doc *ref.Doc, env MEnv) MCmd {
	var c MCmd
	c.Kind = r.Pick("track", "start", "start", "stop", "switch", "create", "pause", "track")
	pickDate := func() {
		switch r.Intn(5) {
		case 0: // absent record
			d := env.Today.Plus(r.PickInt(1, 2, -9, 9))
			c.Date = &d
		case 1:
			c.DateFlag = r.Pick("today", "tomorrow", "yesterday", "")
		default:
			if len(doc.Recs) > 0 {
				d := doc.Recs[r.Intn(len(doc.Recs))].Date
				c.Date = &d
			}
		}
	}
	switch c.Kind {
	case "track":
		pickDate()
		c.Entry = []string{r.Pick("1h worked", "45m", "14:00 - 15:00 call", "2:00pm-3:00pm", "-10m break")}
		if r.Chance(1, 4) {
			c.Entry = append(c.Entry, "second line")
		}
	case "start":
		pickDate()
		if r.Chance(1, 3) {
			t := ref.TimeV{Off: r.Range(300, 1300), H12: r.Bool()}
			c.Time, c.TimeText = &t, ref.FormatTime(t)
		}
		if r.Bool() {
			c.Summary = []string{"new task"}
			if r.Chance(1, 4) {
				c.Summary = append(c.Summary, "more")
			}
		}
	case "stop", "switch":
		c = genLikelyCommand(r, doc, env, false)
		for k := 0; k < 10 && c.Kind != "stop" && c.Kind != "switch"; k++ {
			c = genLikelyCommand(r, doc, env, false)
		}
		if r.Chance(1, 2) {
			c.Time, c.TimeText = nil, ""
		}
	case "create":
		pickDate()
		if r.Bool() {
			v := 480
			c.Should = &v
		}
		if r.Bool() {
			c.RecSummary = []string{"created"}
		}
	case "pause":
		c.Ticks = []int{r.PickInt(0, 61, 125)}
		if r.Bool() {
			c.Summary = []string{"coffee"}
		}
	}
	if c.Date != nil && r.Chance(1, 3) {
		c.DateSlash = true
	}
	if (c.Kind == "start" || c.Kind == "stop" || c.Kind == "switch") && c.Round == 0 && r.Chance(1, 3) {
		c.Round = r.PickInt(5, 15, 30, 60) // also together with an explicit --time (which is taken as typed)
	}
	return c
}

func keysS(m map[string]bool) []string {
	var out []string
	for k := range m {
		out = append(out, fmt.Sprintf("%q", k))
	}
	sort.Strings(out)
	return out
}

func c11Check(e *core.Env, r *core.Rand, text string, rec *ref.Recognition, cmd MCmd, env MEnv) {
	file := e.Dir + "/c11.klg"
	w := map[string]any{"before": text, "command": cmd.String(), "clock": env.Clock().Format("2006-01-02T15:04"), "config": env.ConfigFile()}
	// (a) determinism
	var first string
	var firstOK bool
	var firstErr string
	reps := 24
	for k := 0; k < reps; k++ {
		if err := os.WriteFile(file, []byte(text), 0644); err != nil {
			panic(err)
		}
		// in 1 case of 5 the first repetition goes through the argument decoders of the full CLI: same bytes as the others
		res := runMutating(e, cmd, env, file, k == 0 && core.Hash64("c11-cli", text, cmd.String())%5 == 0)
		if res.Panic != nil {
			e.Violation("command-panic: "+res.Panic.Site(), fmt.Sprintf("`klog %s` panicked: %s", cmd.String(), res.Panic.Value), w)
			return
		}
		after := readFile(file)
		if k == 0 {
			first, firstOK, firstErr = after, res.OK, res.ErrText
			if !res.OK {
				reps = 6
			}
			continue
		}
		if after != first || res.OK != firstOK {
			w["result_run_0"], w["result_run_k"] = first, after
			e.Violation("nondeterministic-result", fmt.Sprintf("`klog %s` on identical input: run 0 and run %d produce different files (ok=%v/%v)\nrun 0: %q\nrun %d: %q", cmd.String(), k, firstOK, res.OK, trunc(first, 600), k, trunc(after, 600)), w)
			return
		}
	}
	e.Count("repetitions", int64(reps))
	if !firstOK {
		e.Count("failed_commands", 1)
		// The styles a file may exhibit are followed, not refused: when the command is one the model accepts, it must
		// not fail on this file and succeed on the same records written in the plainest style.
		if out := applyModel(rec.Doc, cmd, env); out.Undecided == "" && out.OK {
			e.Count("failed_commands_the_model_accepts", 1)
			twin := plainText(rec.Doc)
			if trec := ref.Recognise(twin); trec.Verdict == ref.Conforming && twin != text {
				if out2 := applyModel(trec.Doc, cmd, env); out2.Undecided == "" && out2.OK {
					_ = os.WriteFile(file, []byte(twin), 0644)
					res := runMutating(e, cmd, env, file, false)
					if res.OK {
						w["same_records_in_plain_style"], w["error_on_the_original"] = twin, firstErr
						e.Violation("refusal-depends-on-style: "+cmd.Kind, fmt.Sprintf("`klog %s` fails on this file (%s) but succeeds on the same records written with dash dates, four spaces, LF, ` - ` and a single `?`: a style the file exhibits was refused instead of followed", cmd.String(), trunc(firstErr, 160)), w)
					}
				}
			}
		}
		return
	}
	w["after"] = first
	// (d) valid result
	got, perr := readBack(first)
	if perr != "" {
		e.Violation("result-not-accepted", fmt.Sprintf("`klog %s` succeeded but the result does not parse (%s)", cmd.String(), perr), w)
		return
	}
	arec := ref.Recognise(first)
	if arec.Verdict == ref.NonConforming {
		e.Violation("result-not-conforming", fmt.Sprintf("`klog %s`: the result breaks the specification at line %d (%s)", cmd.String(), arec.BadLine+1, arec.Rule), w)
		return
	}
	if arec.Verdict != ref.Conforming {
		return
	}
	// locate target record in the BEFORE document
	out := applyModel(rec.Doc, cmd, env)
	if out.Undecided != "" || !out.OK || out.Rec < 0 {
		e.Count("model_undecided_or_rejecting", 1)
		return
	}
	target := newFacts()
	others := newFacts()
	tIdxBefore := -1
	if !out.NewRecord {
		tIdxBefore = out.Rec
	}
	for i := range rec.Recs {
		f := factsOf(rec, i)
		if i == tIdxBefore {
			target = f
		} else {
			union(others, f)
		}
	}
	if out.NewRecord {
		target.dashes = map[bool]bool{}
	}
	permitS := func(t, o map[string]bool, def string) map[string]bool {
		if len(t) > 0 {
			return t
		}
		if len(o) > 0 {
			return o
		}
		return map[string]bool{def: true}
	}
	permitB := func(t, o map[bool]bool, def bool) map[bool]bool {
		if len(t) > 0 {
			return t
		}
		if len(o) > 0 {
			return o
		}
		return map[bool]bool{def: true}
	}
	permitI := func(t, o map[int]bool, def int) map[int]bool {
		if len(t) > 0 {
			return t
		}
		if len(o) > 0 {
			return o
		}
		return map[int]bool{def: true}
	}
	pIndent := permitS(target.indent, others.indent, "    ")
	pEOL := permitS(target.eol, others.eol, "\n")
	// (b) inserted lines
	b, a := ref.SplitLines(text), ref.SplitLines(first)
	p := 0
	for p < len(b) && p < len(a) && c03Match(b[p], a[p], cmd) != noMatch {
		p++
	}
	ins := len(a) - len(b)
	allBlank := true
	for _, l := range b {
		if !ref.IsBlankST(l.Text) {
			allBlank = false
		}
	}
	if allBlank {
		p, ins = 0, len(a)
	}
	if ins < 0 || p+ins > len(a) {
		return // line preservation is C03's subject
	}
	sawEntry := false
	for k := p; k < p+ins; k++ {
		l := a[k]
		if l.Ending != "" && !pEOL[l.Ending] {
			e.Violation("inserted-line-ending-not-permitted", fmt.Sprintf("`klog %s`: inserted line %q ends in %q; permitted: %v (target record exhibits %v, other records %v)", cmd.String(), l.Text, l.Ending, keysS(pEOL), keysS(target.eol), keysS(others.eol)), w)
			return
		}
		if !sawEntry && (strings.HasPrefix(l.Text, " ") || strings.HasPrefix(l.Text, "\t")) && !ref.IsBlankST(l.Text) {
			sawEntry = true
			lead := l.Text[:len(l.Text)-len(strings.TrimLeft(l.Text, " \t"))]
			if cmd.Kind == "stop" {
				// continuation lines of the closed entry: twice the record's indentation, followed by the summary line as passed
				ok := false
				want := ""
				if n := k - p + 1; n < len(cmd.Summary) {
					want = cmd.Summary[n]
				}
				for ind := range pIndent {
					if l.Text == ind+ind+want {
						ok = true
					}
				}
				if !ok {
					e.Violation("inserted-indentation-not-permitted", fmt.Sprintf("`klog %s`: inserted continuation line %q is not the summary line %q behind twice a permitted indentation %v", cmd.String(), l.Text, want, keysS(pIndent)), w)
					return
				}
			} else if !pIndent[lead] {
				e.Violation("inserted-indentation-not-permitted", fmt.Sprintf("`klog %s`: inserted entry line %q is indented with %q; permitted: %v (target record exhibits %v, other records %v)", cmd.String(), l.Text, lead, keysS(pIndent), keysS(target.indent), keysS(others.indent)), w)
				return
			}
		}
	}
	if p > 0 && p == len(b) && ins > 0 && b[p-1].Ending == "" && a[p-1].Ending != "" && !pEOL[a[p-1].Ending] {
		e.Violation("inserted-line-ending-not-permitted", fmt.Sprintf("`klog %s`: the former last line gained the ending %q; permitted: %v", cmd.String(), a[p-1].Ending, keysS(pEOL)), w)
		return
	}
	// (c) generated literals
	if out.Rec < len(got.Recs) {
		gr := &got.Recs[out.Rec]
		if out.NewRecord {
			want := permitB(target.dashes, others.dashes, true)
			switch {
			case cmd.Date != nil:
				want = map[bool]bool{!cmd.DateSlash: true} // as typed
			case env.CfgDateFormat != "":
				want = map[bool]bool{env.CfgDateFormat == "YYYY-MM-DD": true}
			}
			if !want[gr.Dashes] {
				e.Violation("generated-date-separator-not-permitted", fmt.Sprintf("`klog %s`: the new record's date uses dashes=%v; permitted: %v (explicit --date=%v, date_format=%q, other records %v)", cmd.String(), gr.Dashes, want, cmd.Date != nil, env.CfgDateFormat, others.dashes), w)
				return
			}
		}
		checkTime := func(t ref.TimeV, what string) bool {
			want := permitB(target.h12, others.h12, false)
			switch {
			case cmd.Time != nil:
				want = map[bool]bool{cmd.Time.H12: true}
			case env.CfgTimeConv != "":
				want = map[bool]bool{env.CfgTimeConv == "12h": true}
			}
			if !want[t.H12] {
				e.Violation("generated-time-convention-not-permitted", fmt.Sprintf("`klog %s`: the %s is written with 12h=%v; permitted: %v (explicit --time=%v, time_convention=%q, target record exhibits %v, other records %v)", cmd.String(), what, t.H12, want, cmd.Time != nil, env.CfgTimeConv, target.h12, others.h12), w)
				return false
			}
			return true
		}
		checkOpen := func(en *ref.Ent) bool {
			if !checkTime(en.Start, "start time of the new open range") {
				return false
			}
			if ws := permitB(target.spacing, others.spacing, true); !ws[en.DashSpaces] {
				e.Violation("generated-dash-spacing-not-permitted", fmt.Sprintf("`klog %s`: new open range written with spaces-around-dash=%v; permitted: %v", cmd.String(), en.DashSpaces, ws), w)
				return false
			}
			if wq := permitI(target.extraQ, others.extraQ, 0); !wq[en.ExtraQ] {
				e.Violation("generated-placeholder-length-not-permitted", fmt.Sprintf("`klog %s`: new open range written with %d placeholder characters; permitted extra lengths: %v", cmd.String(), 1+en.ExtraQ, wq), w)
				return false
			}
			return true
		}
		switch cmd.Kind {
		case "start":
			if out.Ent < len(gr.Entries) && gr.Entries[out.Ent].Kind == ref.KOpen && !checkOpen(&gr.Entries[out.Ent]) {
				return
			}
		case "stop":
			if out.Ent < len(gr.Entries) && gr.Entries[out.Ent].Kind == ref.KRange && !checkTime(gr.Entries[out.Ent].End, "end time") {
				return
			}
		case "switch":
			if out.Ent < len(gr.Entries) && gr.Entries[out.Ent].Kind == ref.KRange && !checkTime(gr.Entries[out.Ent].End, "end time") {
				return
			}
			if last := len(gr.Entries) - 1; last >= 0 && gr.Entries[last].Kind == ref.KOpen && !checkOpen(&gr.Entries[last]) {
				return
			}
		}
	}
	e.Count("successful_cases", 1)
	e.Count("successful_"+cmd.Kind, 1)
	distinctIndents := len(others.indent) + len(target.indent)
	if distinctIndents >= 2 && len(target.indent) == 0 || len(others.eol) >= 2 && len(target.eol) == 0 || len(others.h12) >= 2 && len(target.h12) == 0 || (out.NewRecord && len(others.dashes) >= 2) {
		e.Nontrivial(core.Hash64("c11", text, cmd.String(), env.ConfigFile()))
		e.Count("tie_or_vote_cases", 1)
	}
	if e.WantSample() && len(others.indent) >= 2 && len(text) < 400 {
		e.Sample(w)
	}
}
