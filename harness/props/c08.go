package props

import (
	"os"
	"fmt"
	"strings"

	"github.com/jotaen/klog/klog"
	"github.com/jotaen/klog/klog/app"
	"github.com/jotaen/klog/klog/parser"
	"github.com/jotaen/klog/klog/parser/reconciling"
	"verifharness/core"
	"verifharness/gen"
	"verifharness/obs"
	"verifharness/ref"
)

// C08 — reading a file loses nothing: blocks and lines reproduce the text exactly.

func init() {
	core.Register(&core.Prop{
		ID:    "C08",
		Level: "exploration",
		Rule: "generated documents under hostile admissible layouts (mixed LF/CRLF per line, whitespace-only lines, 0-3 leading/trailing blank lines, missing final newline, trailing blanks) are additionally decorated with bytes that keep them acceptable " +
			"(invalid UTF-8, NUL, lone CR, U+FFFD inside summaries); every text klog accepts is checked with the serial and a parallel engine (every 6th text with ALL worker counts 2..40): concatenation of all block lines (text+ending) == input bytes, " +
			"global line indices 0,1,2,…, exactly one run of significant lines per block (harness's own blank test), #blocks == #records, and a reconcile that applies no operation " +
			"(ApplyReconciler at every record; ReconcileFile on disk for a sample) returns / writes the identical bytes. blank-only texts must yield no blocks. " +
			"non-trivial & distinct = accepted texts with >=2 blocks and >=2 of {CRLF, whitespace-only line, no final newline, non-UTF-8 byte, leading blank lines}, by hash",
		Assumptions: []string{"block membership is judged with the harness's own line splitter (blank = only spaces/tabs), not with klog's"},
		Planned: func(tier string, seed uint64) int64 {
			return map[string]int64{"quick": 40000, "thorough": 2000000}[tier]
		},
		Run: runC08,
	})
}

func c08Decorate(r *core.Rand, d *gen.Out) (string, bool) {
	ls := ref.SplitLines(d.Text)
	if len(ls) != len(d.Lines) || len(ls) == 0 {
		return d.Text, false
	}
	n := r.Range(1, 3)
	changed := false
	junk := []string{"\xff", "\xc3", "\xe5\x96", "\x00", "\r", "�", "\xf0\x9f", "\x80\x80", "\rx", "\x1b[0m", " "}
	for k := 0; k < n; k++ {
		i := r.Intn(len(ls))
		li := d.Lines[i]
		switch li.Kind {
		case gen.LRecSummary, gen.LEntryCont:
			pos := len(ls[i].Text)
			if r.Bool() && pos > 2 {
				pos = r.Range(1, pos)
				for pos < len(ls[i].Text) && ls[i].Text[pos]&0xC0 == 0x80 {
					pos++
				}
				if li.Kind == gen.LEntryCont {
					pos = len(ls[i].Text)
				}
			}
			ls[i].Text = ls[i].Text[:pos] + junk[r.Intn(len(junk))] + ls[i].Text[pos:]
			changed = true
		case gen.LEntry:
			e := d.Doc.Recs[li.Rec].Entries[li.Ent]
			if e.Summary[0] != "" {
				ls[i].Text += junk[r.Intn(len(junk))]
				changed = true
			}
		}
	}
	var sb strings.Builder
	crLine := -1
	if r.Chance(1, 6) { // a record-summary / continuation line that consists of a bare carriage return (a non-blank character)
		for i, li := range d.Lines {
			if (li.Kind == gen.LRecSummary || li.Kind == gen.LEntryCont) && r.Chance(1, 3) {
				crLine = i
				break
			}
		}
	}
	for i, l := range ls {
		if i == crLine {
			ind := ""
			if d.Lines[i].Kind == gen.LEntryCont {
				ind = d.Layouts[d.Lines[i].Rec].Indent + d.Layouts[d.Lines[i].Rec].Indent
			}
			// the line's text is the CR; its ending must be CRLF (a CR followed by a bare LF would itself read as a CRLF ending)
			sb.WriteString(ind + "\r" + "\r\n")
			changed = true
		}
		sb.WriteString(l.Text)
		sb.WriteString(l.Ending)
	}
	return sb.String(), changed
}

func runC08(e *core.Env) {
	total := int64(e.N(40000, 2000000))
	for i := int64(0); i < total; i++ {
		if !e.Mine(i) {
			continue
		}
		r := core.NewRand(e.Seed, 8, uint64(i))
		var text string
		nonUTF8 := false
		switch {
		case i%400 == 7: // (these land on the on-disk sample) an open range with a pause entry whose summary is separated by a tab / several blanks
			text = r.Pick("2024-03-15\n\t8:00 - ? work\n\t-30m\tlunch break\n", "2024-03-15\r\n    8:00 - ?\r\n    -30m\tlunch\r\n", "2024-03-15\n  8:00-?\n  -5m  two blanks\n    and more", "2024-03-15\n    8:00 - ?\n    0m\t\ttabs\n\n2024-03-16\n    1h\n")
		case i%50 == 0:
			text = r.Pick("", "\n", " \n\t\n  ", "\r\n\r\n", "   ", "\t", "\n\n\n", " \r\n")
		default:
			d := gen.Document(r, gen.Opts{MaxRecs: 6, MaxEntries: 5, Unicode: r.Bool(), Hostile: true, OpenRanges: 1, Tags: r.Intn(2), TrailingBlank: true, LookAlikes: r.Chance(1, 3)})
			text = d.Text
			if r.Chance(1, 2) {
				text, nonUTF8 = c08Decorate(r, d)
			}
			switch core.Hash64("c08-shape", fmt.Sprint(e.Seed, i)) % 400 {
			case 0: // a line beyond 64 KiB (a pasted blob in a summary)
				if x, ok := withAppended(d, longLineText(r, r.PickInt(65536, 70000, 140000))); ok {
					text = x.Text
				}
			case 1, 2, 3, 4: // invisible characters in front of the first byte: whatever klog makes of them, it must give them back
				text = r.Pick("\ufeff", "\ufeff", "\u200b", "\ufffe", "\xef\xbb") + text
			case 7: // multi-byte characters across the offsets at which chunked readers cut
				text = straddleText(r, r.PickInt(8192, 65536, 131072))
			case 5, 6: // ... or in front of a later record (two files concatenated)
				d2 := gen.Document(r, gen.Opts{MaxRecs: 2, MinRecs: 1, MaxEntries: 2})
				if text != "" && !strings.HasSuffix(text, "\n") {
					text += "\n"
				}
				text += "\n" + r.Pick("\ufeff", "\u200b") + d2.Text
			}
		}
		e.Begin(i, []byte(text))
		c08Check(e, r, text, nonUTF8, i)
		e.End(i)
	}
}

func c08Check(e *core.Env, r *core.Rand, text string, decorated bool, idx int64) {
	w := map[string]any{"text": text}
	engines := []struct {
		name string
		p    parser.Parser
	}{{"serial", parser.NewSerialParser()}, {fmt.Sprintf("parallel(%d)", r.Range(2, 12)), nil}}
	engines[1].p = parser.NewParallelParser(r.Range(2, 12))
	if idx%6 == 0 && len(text) < 30000 {
		// sweep of worker counts: every chunk boundary position of this text occurs for some count
		for n := 2; n <= 40 && n <= len(text)+1; n++ {
			engines = append(engines, struct {
				name string
				p    parser.Parser
			}{fmt.Sprintf("parallel(%d)", n), parser.NewParallelParser(n)})
		}
	}
	blankOnly := strings.Trim(text, " \t\r\n") == "" && !strings.Contains(strings.ReplaceAll(text, "\r\n", "\n"), "\r")
	for _, en := range engines {
		var rs []klog.Record
		var nblocks int
		var blocks [][]obs.BlockLine
		var nerr int
		pi := core.Guard(func() {
			recs, bs, errs := en.p.Parse(text)
			rs, nblocks, nerr = recs, len(bs), len(errs)
			blocks = obs.BlocksOf(bs)
			if nerr > 0 {
				return
			}
			// no-op reconcile at every record
			for k, rec := range recs {
				if k >= 4 && k < len(recs)-1 {
					continue
				}
				res, aerr := app.ApplyReconciler(recs, bs, []reconciling.Creator{reconciling.NewReconcilerAtRecord(rec.Date())})
				if aerr != nil {
					e.Violation("noop-reconcile-fails", fmt.Sprintf("%s: a reconcile without operations at record #%d failed: %s", en.name, k, aerr.Details()), w)
					continue
				}
				if res.AllSerialised != text {
					e.Violation("noop-reconcile-changes-text", fmt.Sprintf("%s: a reconcile without operations at record #%d (%s) returned different bytes:\n%q\nwant\n%q", en.name, k, rec.Date().ToString(), trunc(res.AllSerialised, 800), trunc(text, 800)), w)
				}
			}
		})
		if pi != nil {
			e.Violation("panic: "+pi.Site(), en.name+": "+pi.Value, w)
			continue
		}
		if nerr > 0 {
			if rec := ref.Recognise(text); rec.Verdict == ref.Conforming {
				// the quantifier is "every valid text": a valid text that yields errors yields no blocks at all
				e.Violation("valid-text-yields-no-blocks", fmt.Sprintf("%s: the text is valid but the parser returns %d errors and therefore no blocks to reproduce it from", en.name, nerr), w)
				return
			}
			e.Count("not_accepted_skipped", 1)
			return
		}
		if blankOnly {
			if nblocks != 0 {
				e.Violation("blank-text-yields-blocks", fmt.Sprintf("%s: blank-only text %q yields %d blocks", en.name, text, nblocks), w)
			}
			e.Count("blank_only_texts", 1)
			continue
		}
		if nblocks == 0 && strings.Trim(text, " \t\r\n") != "" {
			e.Violation("nonblank-text-without-blocks", fmt.Sprintf("%s: accepted non-blank text yields no blocks", en.name), w)
			continue
		}
		if nblocks != len(rs) {
			e.Violation("blocks-vs-records", fmt.Sprintf("%s: %d blocks for %d records", en.name, nblocks, len(rs)), w)
		}
		var sb strings.Builder
		next := 0
		for bi, b := range blocks {
			runs, inRun := 0, false
			for _, l := range b {
				sb.WriteString(l.Text)
				sb.WriteString(l.Ending)
				if l.Index != next {
					e.Violation("line-index", fmt.Sprintf("%s: block #%d: line %q has global index %d, want %d", en.name, bi, l.Text, l.Index, next), w)
				}
				next++
				blank := ref.IsBlankST(l.Text)
				if !blank && !inRun {
					runs++
				}
				inRun = !blank
			}
			if runs != 1 {
				e.Violation("block-membership", fmt.Sprintf("%s: block #%d contains %d runs of significant lines (must be exactly one record's lines plus adjacent blank lines)", en.name, bi, runs), w)
			}
		}
		// the k-th block line must BE the k-th physical line of the file (text and ending), as the harness's own splitter sees it
		if phys := ref.SplitLines(text); sb.String() == text {
			k := 0
			for bi, b := range blocks {
				for _, l := range b {
					if k >= len(phys) || phys[k].Text != l.Text || phys[k].Ending != l.Ending {
						want := "<none: the file has fewer lines>"
						if k < len(phys) {
							want = fmt.Sprintf("%q+%q", phys[k].Text, phys[k].Ending)
						}
						e.Violation("block-lines-are-not-the-files-lines", fmt.Sprintf("%s: block #%d holds as line %d %q+%q, the file's line %d is %s", en.name, bi, k+1, l.Text, l.Ending, k+1, want), w)
						k = -1
						break
					}
					k++
				}
				if k < 0 {
					break
				}
			}
			if k >= 0 && k != len(phys) {
				e.Violation("block-lines-are-not-the-files-lines", fmt.Sprintf("%s: blocks hold %d lines, the file has %d", en.name, k, len(phys)), w)
			}
		}
		if sb.String() != text {
			e.Violation("blocks-do-not-reproduce-text", fmt.Sprintf("%s: concatenated block lines differ from the input:\n%q\nwant\n%q", en.name, trunc(sb.String(), 800), trunc(text, 800)), w)
		}
	}
	if blankOnly {
		return
	}
	// on-disk no-op for a sample: ReconcileFile with a creator for the first record and no operation
	if idx%40 == 7 {
		rs, _, errs := parser.NewSerialParser().Parse(text)
		if errs == nil && len(rs) > 0 {
			f := writeFile(e.Dir, "noop.klg", text)
			ctx, _, err := obs.NewCtx(obs.CtxOpts{ConfigDir: e.Dir + "/cfg", Cpus: r.PickInt(1, 4)})
			if err == nil {
				target := rs[len(rs)-1].Date()
				if pi := core.Guard(func() {
					_, rerr := ctx.ReconcileFile(app.FileOrBookmarkName(f), []reconciling.Creator{reconciling.NewReconcilerAtRecord(target)})
					if rerr != nil {
						e.Violation("noop-reconcile-fails", "ReconcileFile without operations failed: "+rerr.Details(), w)
					} else if got := readFile(f); got != text {
						e.Violation("noop-reconcile-changes-file", fmt.Sprintf("ReconcileFile without operations rewrote the file:\n%q\nwant\n%q", trunc(got, 800), trunc(text, 800)), w)
					}
				}); pi != nil {
					e.Violation("panic: "+pi.Site(), "ReconcileFile: "+pi.Value, w)
				}
				e.Count("on_disk_noop_reconciles", 1)
				// `pause --extend` by zero minutes is defined to change nothing: byte-identical file
				// (only on the hand-written texts, whose pause durations are spelt canonically: klog re-spells the duration it touches)
				for _, rc := range rs {
					if rc.OpenRange() == nil || idx%400 != 7 {
						continue
					}
					_ = os.WriteFile(f, []byte(text), 0644)
					if pi := core.Guard(func() {
						_, rerr := ctx.ReconcileFile(app.FileOrBookmarkName(f), []reconciling.Creator{reconciling.NewReconcilerAtRecord(rc.Date())}, func(rr *reconciling.Reconciler) error {
							return rr.ExtendPause(klog.NewDuration(0, 0))
						})
						if rerr != nil {
							return // no pause to extend: not this property's subject
						}
						if got := readFile(f); got != text {
							e.Violation("zero-extension-of-a-pause-changes-file", fmt.Sprintf("extending a pause by 0m rewrote the file:\n%q\nwant\n%q", trunc(got, 600), trunc(text, 600)), w)
						} else {
							e.Count("on_disk_zero_pause_extensions", 1)
						}
					}); pi != nil {
						e.Violation("panic: "+pi.Site(), "ReconcileFile(ExtendPause 0m): "+pi.Value, w)
					}
					break
				}
				// ... and an edit that makes the file SHORTER (an open range with a long placeholder closed at a short time): what is on
				// disk afterwards must be exactly the text the reconciler produced, nothing of the old contents may stay behind
				for _, rc := range rs {
					or := rc.OpenRange()
					if or == nil {
						continue
					}
					end, terr := or.Start().Plus(klog.NewDuration(0, 1))
					if terr != nil {
						break
					}
					_ = os.WriteFile(f, []byte(text), 0644)
					if pi := core.Guard(func() {
						res, rerr := ctx.ReconcileFile(app.FileOrBookmarkName(f), []reconciling.Creator{reconciling.NewReconcilerAtRecord(rc.Date())}, func(rr *reconciling.Reconciler) error {
							return rr.CloseOpenRange(end, reconciling.NoReformat[klog.TimeFormat](), nil)
						})
						if rerr != nil {
							return // whether the edit is possible is not this property's subject
						}
						if got := readFile(f); got != res.AllSerialised {
							e.Violation("written-file-differs-from-reconciled-text", fmt.Sprintf("after closing an open range the file on disk (%d bytes) is not the text the reconciler produced (%d bytes; the input had %d):\n%q\nwant\n%q", len(got), len(res.AllSerialised), len(text), trunc(got, 600), trunc(res.AllSerialised, 600)), w)
						} else if len(got) < len(text) {
							e.Count("on_disk_edits_that_shrink_the_file", 1)
						}
					}); pi != nil {
						e.Violation("panic: "+pi.Site(), "ReconcileFile(CloseOpenRange): "+pi.Value, w)
					}
					break
				}
			}
		}
	}
	e.Count("accepted_texts", 1)
	feats := 0
	if strings.Contains(text, "\r\n") {
		feats++
	}
	if !strings.HasSuffix(text, "\n") {
		feats++
	}
	if decorated {
		feats++
		e.Count("decorated_and_still_accepted", 1)
	}
	if strings.HasPrefix(text, "\n") || strings.HasPrefix(text, " ") || strings.HasPrefix(text, "\t") || strings.HasPrefix(text, "\r\n") {
		feats++
	}
	for _, l := range ref.SplitLines(text) {
		if l.Text != "" && ref.IsBlankST(l.Text) {
			feats++
			break
		}
	}
	if feats >= 2 && strings.Count(text, "\n") > 4 {
		e.Nontrivial(core.Hash64("c08", text))
	}
	if e.WantSample() && feats >= 2 && len(text) < 300 {
		e.Sample(map[string]any{"text": text, "checked": "concatenation, line indices, block membership, no-op reconcile at every record (serial + parallel)"})
	}
}
