package props

import (
	"sync"
	"fmt"
	"time"
	"strings"

	"github.com/jotaen/klog/klog"
	"github.com/jotaen/klog/klog/parser"
	"verifharness/core"
	"verifharness/ref"
)

// C16 — dates, times, durations and ranges: exact text round trip and exact arithmetic.
//
// The domains named by the property are enumerated structurally; the expected
// verdict/value of each literal comes from ref/literals.go (hand-written
// scanners, no code shared with klog).
//
// Case numbering: 0 = all time strings, 1 = duration strings + equivalence
// classes, 2+k = start time #k against all end times and all durations
// (k in 0..4319), 4322+y = all date strings of year y.

const c16Times = 4320

func c16TimeOfIndex(k int) ref.TimeV { return ref.TimeV{Off: k - 1440} }

func init() {
	core.Register(&core.Prop{
		ID:    "C16",
		Level: "exploration",
		Rule: "enumerated domains: (0) all 132 000 strings <?D{1,2}:DD(am|pm)?>?; (1) all duration strings sign{none,+,-} x {Hh,Mm,HhMm}, H 0-120, M 0-130, plus padded/oversized/malformed variants, and the spec's equivalence classes; " +
			"(2+k) start time k of the 4320 shifted times x both notations (write/re-read), x all 4320 end times (range validity, duration, text), x all durations -2880..2880 (Plus result or error); (4322+y) all strings YYYY?MM?DD of year y with both separators and both mixed forms, MM 00-13, DD 00-32. " +
			"thorough = everything (exhaustive); quick = blocks 0 and 1 complete, a seed-chosen 1/4 of the start-time blocks, and the date strings of ALL years. " +
			"non-trivial & distinct = accepted literal or valid (time,time)/(time,duration) combination, counted per block by hash of the block's accepted-set signature plus every accepted time/duration string individually",
		Assumptions: []string{
			"reference literal semantics written from Specification.md (harness/ref/literals.go)",
			"klog.NewDurationFromString panics by documented/tested contract for amounts beyond the int range; such strings are excluded here and covered at the parser level by C06",
		},
		Exhaustive: func(tier string) bool { return tier == "thorough" },
		Run:        runC16,
		// the value types are used from several goroutines at once (the parallel parser's workers construct them, commands
		// format them): one child of the -race build formats and re-reads values concurrently
		RaceShards: func(tier string) int { return 1 },
		RunRace:    runC16Race,
	})
}

func runC16(e *core.Env) {
	years := map[int]bool{}
	for _, y := range c15Years(e) {
		years[y] = true
	}
	total := int64(2 + c16Times + 10000)
	for i := int64(0); i < total; i++ {
		if !e.Mine(i) {
			continue
		}
		switch {
		case i == 0:
			e.Begin(i, []byte("time strings"))
			e.Evals(c16TimeStrings(e))
			e.End(i)
		case i == 1:
			e.Begin(i, []byte("duration strings"))
			e.Evals(c16Durations(e))
			e.End(i)
		case i < 2+c16Times:
			k := int(i - 2)
			if e.Quick() && e.OnlyCase < 0 && core.Hash64(fmt.Sprint(e.Seed, "tblock", k))%4 != 0 {
				continue
			}
			e.Begin(i, []byte(fmt.Sprintf("start time #%d %s", k, ref.FormatTime(c16TimeOfIndex(k)))))
			e.Evals(c16TimeBlock(e, k))
			e.End(i)
		default:
			y := int(i - 2 - c16Times)
			_ = years
			e.Begin(i, []byte(fmt.Sprintf("dates of year %04d", y)))
			n := c16Dates(e, y)
			if y >= 2008 && y <= 2026 {
				saved := time.Local
				for _, zn := range []string{"America/Santiago", "America/Havana", "Pacific/Apia", "America/Sao_Paulo", "Atlantic/Azores", "Africa/Cairo"} {
					if loc, err := time.LoadLocation(zn); err == nil {
						time.Local = loc
						n += c16Dates(e, y)
					}
				}
				time.Local = saved
			}
			e.Evals(n)
			e.End(i)
		}
	}
}

func ktimeFrom(t ref.TimeV) (klog.Time, error) {
	return klog.NewTimeFromString(ref.FormatTime(t))
}

// checkTimeAgainst compares a klog time with the reference value.
func c16CheckTime(e *core.Env, lit string, kt klog.Time, want ref.TimeV) {
	off := kt.MidnightOffset().InMinutes()
	if off != want.Off {
		e.Violation("time-value", fmt.Sprintf("time %q: MidnightOffset=%d, want %d", lit, off, want.Off), lit)
		return
	}
	if kt.Format().Use24HourClock == want.H12 {
		e.Violation("time-notation", fmt.Sprintf("time %q: Use24HourClock=%v, but literal 12h=%v", lit, kt.Format().Use24HourClock, want.H12), lit)
	}
	if s := kt.ToString(); s != ref.FormatTime(want) {
		e.Violation("time-tostring", fmt.Sprintf("time %q: ToString()=%q, want canonical %q", lit, s, ref.FormatTime(want)), lit)
	}
	sh := 0
	if kt.IsYesterday() {
		sh = -1
	} else if kt.IsTomorrow() {
		sh = 1
	}
	if sh != want.Shift() || kt.IsToday() != (want.Shift() == 0) {
		e.Violation("time-shift", fmt.Sprintf("time %q: shift flags %d, want %d", lit, sh, want.Shift()), lit)
	}
	rest := want.Off - want.Shift()*1440
	if kt.Hour() != rest/60 || kt.Minute() != rest%60 {
		e.Violation("time-hour-minute", fmt.Sprintf("time %q: Hour/Minute = %d:%d, want %d:%d", lit, kt.Hour(), kt.Minute(), rest/60, rest%60), lit)
	}
}

func c16TimeStrings(e *core.Env) int64 {
	var n int64
	byValue := map[int][]klog.Time{}
	accepted := 0
	for _, pre := range []string{"", "<"} {
		for _, suf := range []string{"", ">"} {
			for _, ap := range []string{"", "am", "pm"} {
				for hd := 1; hd <= 2; hd++ {
					hmax := 9
					if hd == 2 {
						hmax = 99
					}
					for h := 0; h <= hmax; h++ {
						for m := 0; m <= 99; m++ {
							lit := fmt.Sprintf("%s%0*d:%02d%s%s", pre, hd, h, m, ap, suf)
							n++
							want, ok := ref.ParseTime(lit)
							var kt klog.Time
							var err error
							if p := core.Guard(func() { kt, err = klog.NewTimeFromString(lit) }); p != nil {
								e.Violation("time-parse-panic: "+p.Site(), fmt.Sprintf("time %q: panic %s", lit, p.Value), lit)
								continue
							}
							if ok != (err == nil) {
								e.Violation("time-acceptance", fmt.Sprintf("time literal %q: klog accepted=%v, specification says %v", lit, err == nil, ok), lit)
								continue
							}
							if !ok {
								continue
							}
							accepted++
							e.Nontrivial(core.Hash64("time", lit))
							c16CheckTime(e, lit, kt, want)
							// write out and read back
							back, berr := klog.NewTimeFromString(kt.ToString())
							if berr != nil || back.MidnightOffset().InMinutes() != want.Off || back.Format() != kt.Format() {
								e.Violation("time-roundtrip", fmt.Sprintf("time %q: ToString()=%q does not read back to the same value/notation", lit, kt.ToString()), lit)
							}
							if len(byValue[want.Off]) < 6 {
								byValue[want.Off] = append(byValue[want.Off], kt)
							}
						}
					}
				}
			}
		}
	}
	// every string up to five characters over an alphabet of the characters a time is made of, plus signs, blanks and dots
	// (six characters: the leading "<" / trailing ">" forms): klog accepts exactly the literals of the specification
	alpha := []byte("0159:+- .apm<>")
	var buf [6]byte
	var rec func(depth, length int)
	rec = func(depth, length int) {
		if depth == length {
			lit := string(buf[:length])
			n++
			_, ok := ref.ParseTime(lit)
			var err error
			if p := core.Guard(func() { _, err = klog.NewTimeFromString(lit) }); p != nil {
				e.Violation("time-parse-panic: "+p.Site(), fmt.Sprintf("time %q: panic %s", lit, p.Value), lit)
				return
			}
			if ok != (err == nil) {
				e.Violation("time-acceptance", fmt.Sprintf("time literal %q: klog accepted=%v, specification says %v", lit, err == nil, ok), lit)
			}
			return
		}
		for _, c := range alpha {
			if length == 6 && (depth == 0 && c != '<' && c != '+' && c != '-' || depth == 5 && false) {
				continue
			}
			buf[depth] = c
			rec(depth+1, length)
		}
	}
	for length := 1; length <= 6; length++ {
		rec(0, length)
	}
	e.Count("short_strings_over_the_time_alphabet", n-132000)
	// look-alikes: one character of a valid literal replaced by a character that is NOT that character but shares its low
	// byte (U+01xx, U+04xx), is its fullwidth form, or is the digit of the same value in another script - no time literal
	lookalikes := 0
	for _, lit := range []string{"1:30", "11:30", "12:34", "<9:00pm", "0:05>", "23:59", "10:15am", "<23:00", "24:00", "8:00", "12:00am>", "7:07pm"} {
		rs := []rune(lit)
		for pos, c := range rs {
			subs := []rune{0x0100 + c, 0x0400 + c, 0x1E00 + c, 0xFF00 + c - 0x20}
			if c >= '0' && c <= '9' {
				subs = append(subs, 0x0660+c-'0', 0x0966+c-'0', 0x1D7CE+c-'0')
			}
			for _, sub := range subs {
				m := append(append(append([]rune{}, rs[:pos]...), sub), rs[pos+1:]...)
				ms := string(m)
				n++
				lookalikes++
				var err error
				if p := core.Guard(func() { _, err = klog.NewTimeFromString(ms) }); p != nil {
					e.Violation("time-parse-panic: "+p.Site(), fmt.Sprintf("time %q: panic %s", ms, p.Value), ms)
				} else if err == nil {
					e.Violation("time-acceptance", fmt.Sprintf("%q (the literal %q with %q in place of %q) is accepted as a time", ms, lit, string(sub), string(c)), ms)
				}
			}
		}
	}
	e.Count("lookalike_time_strings", int64(lookalikes))
	// equality: literals denote the same value exactly when the offsets agree
	offs := make([]int, 0, len(byValue))
	for o := range byValue {
		offs = append(offs, o)
	}
	for _, o := range offs {
		ts := byValue[o]
		for a := range ts {
			for b := range ts {
				n++
				if !ts[a].IsEqualTo(ts[b]) || !ts[a].IsAfterOrEqual(ts[b]) {
					e.Violation("time-equality", fmt.Sprintf("%q and %q denote the same instant but IsEqualTo/IsAfterOrEqual disagree", ts[a].ToString(), ts[b].ToString()), o)
				}
			}
		}
		for _, o2 := range []int{o - 1, o + 1, o + 1440, o - 1440, o + 720} {
			if other, ok := byValue[o2]; ok {
				n++
				if ts[0].IsEqualTo(other[0]) {
					e.Violation("time-equality", fmt.Sprintf("%q and %q denote different instants but IsEqualTo is true", ts[0].ToString(), other[0].ToString()), o)
				}
				if ts[0].IsAfterOrEqual(other[0]) != (o >= o2) {
					e.Violation("time-order", fmt.Sprintf("%q.IsAfterOrEqual(%q) = %v, want %v", ts[0].ToString(), other[0].ToString(), ts[0].IsAfterOrEqual(other[0]), o >= o2), o)
				}
			}
		}
	}
	e.Count("time_strings", 132000)
	e.Count("time_strings_accepted", int64(accepted))
	e.Count("distinct_time_values_seen", int64(len(byValue)))
	if len(byValue) != c16Times {
		e.Violation("time-domain", fmt.Sprintf("the accepted time literals denote %d distinct instants, the specification has %d", len(byValue), c16Times), nil)
	}
	e.Sample(map[string]any{"block": "time strings", "examples": []string{"<24:00", "12:00am", "9:05pm>", "24:00", "0:60 (rejected)", "13:00pm (rejected)"}, "accepted": accepted})
	return n
}

func c16Durations(e *core.Env) int64 {
	var n int64
	check := func(lit string) {
		n++
		want, ok, overflow := ref.ParseDuration(lit)
		if overflow {
			e.Count("duration_strings_beyond_int_skipped", 1)
			return
		}
		var kd klog.Duration
		var err error
		if p := core.Guard(func() { kd, err = klog.NewDurationFromString(lit) }); p != nil {
			e.Violation("duration-parse-panic: "+p.Site(), fmt.Sprintf("duration %q: panic %s", lit, p.Value), lit)
			return
		}
		if ok != (err == nil) {
			e.Violation("duration-acceptance", fmt.Sprintf("duration literal %q: klog accepted=%v, specification says %v", lit, err == nil, ok), lit)
			return
		}
		if !ok {
			return
		}
		e.Nontrivial(core.Hash64("dur", lit))
		if kd.InMinutes() != want.Mins {
			e.Violation("duration-value", fmt.Sprintf("duration %q: InMinutes=%d, want %d", lit, kd.InMinutes(), want.Mins), lit)
			return
		}
		canon := ref.FormatDuration(want)
		if s := kd.ToString(); s != canon {
			e.Violation("duration-tostring", fmt.Sprintf("duration %q: ToString()=%q, want %q", lit, s, canon), lit)
			return
		}
		back, berr := klog.NewDurationFromString(kd.ToString())
		if berr != nil || back.InMinutes() != want.Mins || back.ToString() != canon {
			e.Violation("duration-roundtrip", fmt.Sprintf("duration %q: ToString()=%q does not read back to the same value/notation", lit, kd.ToString()), lit)
		}
		wantSigned := canon
		if want.Mins > 0 && !strings.HasPrefix(canon, "+") {
			wantSigned = "+" + canon
		}
		// ToStringWithSign is only ever applied to computed values (diffs); for literals that carry their own
		// explicit '+' it is not part of the write-out/read-back contract, so it is only observed for the others.
		if s := kd.ToStringWithSign(); !want.ForcePlus && s != wantSigned {
			e.Violation("duration-tostringwithsign", fmt.Sprintf("duration %q: ToStringWithSign()=%q, want %q", lit, s, wantSigned), lit)
		}
	}
	for _, sign := range []string{"", "+", "-"} {
		for h := 0; h <= 120; h++ {
			check(fmt.Sprintf("%s%dh", sign, h))
			for m := 0; m <= 130; m++ {
				check(fmt.Sprintf("%s%dh%dm", sign, h, m))
			}
		}
		for m := 0; m <= 130; m++ {
			check(fmt.Sprintf("%s%dm", sign, m))
		}
		// padded, large and malformed shapes
		for _, v := range []string{"01h", "007m", "1h05m", "1h5m", "00h00m", "1000000h", "99999999m", "153722867280912929h", "9223372036854775807m", "153722867280912930h7m",
			"", "h", "m", "hm", "1", "1h1", "1m1h", "1h1h", "1m1m", "1.5h", "1,5h", "1 h", "1h 5m", "1H", "1M", "1h5", "5m1", "1hm", "h1m", "1h-5m", "1h+5m", "--1h", "+-1h", "1h60m", "0h60m", "2h99m", "١h", "1hh", "1mm", "1d", "1s", " 1h", "1h ", "1h\t", "1h5m!"} {
			check(sign + v)
		}
		// the hour and minute parts are integers: any number of leading zeros leaves the amount unchanged
		for z := 1; z <= 40; z++ {
			pad := strings.Repeat("0", z)
			for _, v := range []string{pad + "8h", pad + "h", pad + "m", pad + "90m", "1h" + pad + "59m", pad + "7h" + pad + "5m", pad + "120h", "2h" + pad + "m", "2h" + pad + "60m"} {
				check(sign + v)
			}
		}
	}
	// equivalence classes of the specification
	eqT := func(a, b string) {
		n++
		ta, ea := klog.NewTimeFromString(a)
		tb, eb := klog.NewTimeFromString(b)
		if ea != nil || eb != nil || !ta.IsEqualTo(tb) || !tb.IsEqualTo(ta) || ta.MidnightOffset().InMinutes() != tb.MidnightOffset().InMinutes() {
			e.Violation("equivalence", fmt.Sprintf("%q and %q must denote the same time", a, b), []string{a, b})
		}
	}
	eqT("24:00", "0:00>")
	eqT("<24:00", "0:00")
	eqT("12:00am", "0:00")
	eqT("12:00pm", "12:00")
	eqT("<12:00am", "<0:00")
	eqT("12:30am>", "0:30>")
	eqT("1:05pm", "13:05")
	eqT("08:00", "8:00")
	eqD := func(a, b string) {
		n++
		da, ea := klog.NewDurationFromString(a)
		db, eb := klog.NewDurationFromString(b)
		if ea != nil || eb != nil || da.InMinutes() != db.InMinutes() {
			e.Violation("equivalence", fmt.Sprintf("%q and %q must denote the same duration", a, b), []string{a, b})
		}
	}
	eqD("90m", "1h30m")
	eqD("+90m", "1h30m")
	eqD("-90m", "-1h30m")
	eqD("60m", "1h")
	eqD("0h", "0m")
	eqD("1h0m", "60m")
	e.Count("duration_strings", n)
	e.Sample(map[string]any{"block": "duration strings", "examples": []string{"-0h", "+90m", "1h60m (rejected)", "120h59m", "1m1h (rejected)"}})
	return n
}

func c16TimeBlock(e *core.Env, k int) int64 {
	var n int64
	st := c16TimeOfIndex(k)
	// both notations: write with format, read back
	var start klog.Time
	for _, h12 := range []bool{false, true} {
		lit := ref.FormatTime(ref.TimeV{Off: st.Off, H12: h12})
		kt, err := klog.NewTimeFromString(lit)
		n++
		if err != nil {
			e.Violation("time-acceptance", fmt.Sprintf("canonical time literal %q rejected", lit), lit)
			return n
		}
		c16CheckTime(e, lit, kt, ref.TimeV{Off: st.Off, H12: h12})
		other := kt.ToStringWithFormat(klog.TimeFormat{Use24HourClock: h12})
		wantOther := ref.FormatTime(ref.TimeV{Off: st.Off, H12: !h12})
		if other != wantOther {
			e.Violation("time-tostringwithformat", fmt.Sprintf("%q.ToStringWithFormat(24h=%v) = %q, want %q", lit, h12, other, wantOther), lit)
		} else if back, berr := klog.NewTimeFromString(other); berr != nil || !back.IsEqualTo(kt) || back.Format().Use24HourClock != h12 {
			e.Violation("time-roundtrip", fmt.Sprintf("%q written as %q does not read back to the same value/notation", lit, other), lit)
		}
		if s := kt.ToString(); s != lit {
			e.Violation("time-notation-changed-by-rendering", fmt.Sprintf("time %q: after ToStringWithFormat the same value prints as %q", lit, s), lit)
		}
		if !h12 {
			start = kt
		}
	}
	// all end times: range validity, duration, text
	valid := 0
	for j := 0; j < c16Times; j++ {
		n++
		et := c16TimeOfIndex(j)
		end, err := ktimeFrom(et)
		if err != nil {
			e.Violation("time-acceptance", fmt.Sprintf("canonical time literal %q rejected", ref.FormatTime(et)), nil)
			continue
		}
		var rg klog.Range
		var rerr error
		if p := core.Guard(func() { rg, rerr = klog.NewRange(start, end) }); p != nil {
			e.Violation("range-panic: "+p.Site(), fmt.Sprintf("range %s - %s: panic %s", ref.FormatTime(st), ref.FormatTime(et), p.Value), nil)
			continue
		}
		wantValid := et.Off >= st.Off
		if (rerr == nil) != wantValid {
			e.Violation("range-validity", fmt.Sprintf("range %s - %s: accepted=%v, want %v (a range is valid iff its end is not before its start)", ref.FormatTime(st), ref.FormatTime(et), rerr == nil, wantValid), nil)
			continue
		}
		if !wantValid {
			continue
		}
		valid++
		if d := rg.Duration().InMinutes(); d != et.Off-st.Off {
			e.Violation("range-duration", fmt.Sprintf("range %s: Duration=%d, want %d", rg.ToString(), d, et.Off-st.Off), nil)
		}
		wantText := ref.FormatTime(st) + " - " + ref.FormatTime(et)
		if s := rg.ToString(); s != wantText {
			e.Violation("range-tostring", fmt.Sprintf("range ToString()=%q, want %q", s, wantText), nil)
		}
		if (j*31+k)%97 == 0 {
			// every combination of clock notations of the two times: each time keeps its own
			for combo := 1; combo < 4; combo++ {
				s12, e12 := combo&1 != 0, combo&2 != 0
				ls, le := ref.FormatTime(ref.TimeV{Off: st.Off, H12: s12}), ref.FormatTime(ref.TimeV{Off: et.Off, H12: e12})
				ts, err1 := klog.NewTimeFromString(ls)
				te, err2 := klog.NewTimeFromString(le)
				if err1 != nil || err2 != nil {
					continue
				}
				n++
				rm, rerr := klog.NewRange(ts, te)
				if rerr != nil {
					e.Violation("range-validity", fmt.Sprintf("range %s - %s rejected although its end is not before its start", ls, le), nil)
					continue
				}
				if got := rm.ToString(); got != ls+" - "+le {
					e.Violation("range-tostring", fmt.Sprintf("range of %q and %q prints %q: each time keeps its own clock notation", ls, le, got), nil)
					continue
				}
				text := "2000-01-01\n    " + ls + "-" + le + "\n"
				rs, _, errs := parser.NewSerialParser().Parse(text)
				if errs != nil || len(rs) != 1 || len(rs[0].Entries()) != 1 {
					e.Violation("range-roundtrip", fmt.Sprintf("range text %q-%q is not read back as one range entry", ls, le), text)
					continue
				}
				en := rs[0].Entries()[0]
				if back := klog.Unbox[string](&en, func(r klog.Range) string { return r.ToString() }, func(klog.Duration) string { return "<duration>" }, func(klog.OpenRange) string { return "<open range>" }); back != ls+"-"+le {
					e.Violation("range-roundtrip", fmt.Sprintf("range text %q read from a file prints %q", ls+"-"+le, back), text)
				}
			}
		}
		if (j*31+k)%257 == 0 {
			// full text round trip through the parser, both dash spacings
			for _, spaces := range []bool{true, false} {
				r2, _ := klog.NewRangeWithFormat(start, end, klog.RangeFormat{UseSpacesAroundDash: spaces})
				text := "2000-01-01\n    " + r2.ToString() + "\n"
				rs, _, errs := parser.NewSerialParser().Parse(text)
				n++
				ok := errs == nil && len(rs) == 1 && len(rs[0].Entries()) == 1
				if ok {
					en := rs[0].Entries()[0]
					ok = klog.Unbox[bool](&en, func(r klog.Range) bool {
						return r.Start().IsEqualTo(start) && r.End().IsEqualTo(end) && r.Format().UseSpacesAroundDash == spaces && r.ToString() == r2.ToString()
					}, func(klog.Duration) bool { return false }, func(klog.OpenRange) bool { return false })
				}
				if !ok {
					e.Violation("range-roundtrip", fmt.Sprintf("range %q does not read back to the same value and notation", r2.ToString()), text)
				}
			}
		}
	}
	// all durations -2880..2880
	okPlus := 0
	for d := -2880; d <= 2880; d++ {
		n++
		var res klog.Time
		var err error
		if p := core.Guard(func() { res, err = start.Plus(klog.NewDuration(0, d)) }); p != nil {
			e.Violation("plus-panic: "+p.Site(), fmt.Sprintf("%s.Plus(%dm): panic %s", ref.FormatTime(st), d, p.Value), nil)
			continue
		}
		sum := st.Off + d
		wantOK := sum >= -1440 && sum <= 2879
		if (err == nil) != wantOK {
			e.Violation("plus-domain", fmt.Sprintf("%s.Plus(%dm): error=%v, want representable=%v (result offset %d)", ref.FormatTime(st), d, err, wantOK, sum), nil)
			continue
		}
		if !wantOK {
			continue
		}
		okPlus++
		if got := res.MidnightOffset().InMinutes(); got != sum {
			e.Violation("plus-value", fmt.Sprintf("%s.Plus(%dm) = %s (offset %d), want offset %d", ref.FormatTime(st), d, res.ToString(), got, sum), nil)
		} else if s := res.ToString(); s != ref.FormatTime(ref.TimeV{Off: sum}) {
			e.Violation("plus-text", fmt.Sprintf("%s.Plus(%dm) prints %q, want %q", ref.FormatTime(st), d, s, ref.FormatTime(ref.TimeV{Off: sum})), nil)
		}
	}
	// notation is preserved by Plus
	if t12, err := klog.NewTimeFromString(ref.FormatTime(ref.TimeV{Off: st.Off, H12: true})); err == nil {
		for _, d := range []int{-61, 0, 59, 720} {
			sum := st.Off + d
			if sum < -1440 || sum > 2879 {
				continue
			}
			n++
			res, err := t12.Plus(klog.NewDuration(0, d))
			if err != nil || res.Format().Use24HourClock || res.ToString() != ref.FormatTime(ref.TimeV{Off: sum, H12: true}) {
				e.Violation("plus-notation", fmt.Sprintf("%s.Plus(%dm): 12-hour notation not preserved / wrong text", t12.ToString(), d), nil)
			}
		}
	}
	e.Count("time_pairs", c16Times)
	e.Count("valid_ranges", int64(valid))
	e.Count("plus_calls", 5761)
	e.Count("plus_representable", int64(okPlus))
	e.Nontrivial(core.Hash64("tblock", fmt.Sprint(k, valid, okPlus)))
	if e.WantSample() {
		e.Sample(map[string]any{"block": "start time x all ends x all durations", "start": ref.FormatTime(st), "valid_ranges": valid, "representable_sums": okPlus})
	}
	return n
}

func c16Dates(e *core.Env, y int) int64 {
	var n int64
	accepted := 0
	for m := 0; m <= 13; m++ {
		for d := 0; d <= 32; d++ {
			for _, seps := range [][2]byte{{'-', '-'}, {'/', '/'}, {'-', '/'}, {'/', '-'}} {
				lit := fmt.Sprintf("%04d%c%02d%c%02d", y, seps[0], m, seps[1], d)
				n++
				want, dashes, ok := ref.ParseDate(lit)
				var kd klog.Date
				var err error
				if p := core.Guard(func() { kd, err = klog.NewDateFromString(lit) }); p != nil {
					e.Violation("date-parse-panic: "+p.Site(), fmt.Sprintf("date %q: panic %s", lit, p.Value), lit)
					continue
				}
				if ok != (err == nil) {
					e.Violation("date-acceptance", fmt.Sprintf("date literal %q: klog accepted=%v, specification says %v", lit, err == nil, ok), lit)
					continue
				}
				if !ok {
					continue
				}
				accepted++
				if kd.Year() != want.Y || kd.Month() != want.M || kd.Day() != want.D {
					e.Violation("date-value", fmt.Sprintf("date %q: parsed as %d-%d-%d", lit, kd.Year(), kd.Month(), kd.Day()), lit)
					continue
				}
				if kd.Format().UseDashes != dashes {
					e.Violation("date-notation", fmt.Sprintf("date %q: UseDashes=%v", lit, kd.Format().UseDashes), lit)
				}
				if s := kd.ToString(); s != lit {
					e.Violation("date-tostring", fmt.Sprintf("date %q: ToString()=%q", lit, s), lit)
				}
				otherFmt := klog.DateFormat{UseDashes: !dashes}
				if s := kd.ToStringWithFormat(otherFmt); s != ref.FormatDate(want, !dashes) {
					e.Violation("date-tostringwithformat", fmt.Sprintf("date %q: ToStringWithFormat(dashes=%v)=%q", lit, !dashes, s), lit)
				} else if back, berr := klog.NewDateFromString(s); berr != nil || !back.IsEqualTo(kd) || back.Format().UseDashes == dashes {
					e.Violation("date-roundtrip", fmt.Sprintf("date %q written as %q does not read back", lit, s), lit)
				}
				// rendering a value in the other notation is an observation: the value keeps its own notation afterwards
				if s := kd.ToString(); s != lit || kd.Format().UseDashes != dashes {
					e.Violation("date-notation-changed-by-rendering", fmt.Sprintf("date %q: after ToStringWithFormat(dashes=%v) the same value prints as %q", lit, !dashes, s), lit)
				} else if nx := kd.PlusDays(0); nx.ToString() != lit {
					e.Violation("date-notation-changed-by-rendering", fmt.Sprintf("date %q: PlusDays(0) after ToStringWithFormat prints as %q", lit, nx.ToString()), lit)
				}
			}
		}
	}
	// a few malformed shapes per year
	ys := fmt.Sprintf("%04d", y)
	for _, lit := range []string{ys + "-1-01", ys + "-01-1", ys + "0101", ys + "-01-01 ", " " + ys + "-01-01", ys + ".01.01", ys + "-01-011", ys[1:] + "-01-01", "0" + ys + "-01-01", ys + "--01-01", ys + "-01", ys + "-01-01-", ys + "-٠١-01"} {
		n++
		if _, _, ok := ref.ParseDate(lit); ok {
			continue
		}
		var err error
		if p := core.Guard(func() { _, err = klog.NewDateFromString(lit) }); p != nil {
			e.Violation("date-parse-panic: "+p.Site(), fmt.Sprintf("date %q: panic %s", lit, p.Value), lit)
		} else if err == nil {
			e.Violation("date-acceptance", fmt.Sprintf("malformed date literal %q accepted", lit), lit)
		}
	}
	e.Count("date_strings", n)
	e.Count("date_strings_accepted", int64(accepted))
	e.Nontrivial(core.Hash64("year", fmt.Sprint(y, accepted)))
	wantAccepted := 2 * 365
	if ref.IsLeap(y) {
		wantAccepted = 2 * 366
	}
	if accepted != wantAccepted {
		e.Violation("date-domain", fmt.Sprintf("year %04d: %d date literals accepted, the calendar has %d", y, accepted, wantAccepted), y)
	}
	if e.WantSample() && y%400 == 0 {
		e.Sample(map[string]any{"block": "date strings of a year", "year": y, "strings": n, "accepted": accepted})
	}
	return n
}

// runC16Race: 16 goroutines construct, format and re-read durations, times, dates and ranges at the same moment, under
// the race detector; every result is also compared with the literal it came from.
func runC16Race(e *core.Env) {
	if !e.Mine(0) {
		return
	}
	e.Begin(0, []byte("concurrent use of the value types"))
	var wg sync.WaitGroup
	var mu sync.Mutex
	bad := ""
	note := func(s string) {
		mu.Lock()
		if bad == "" {
			bad = s
		}
		mu.Unlock()
	}
	var calls int64
	for g := 0; g < 16; g++ {
		wg.Add(1)
		go func(g int) {
			defer wg.Done()
			n := int64(0)
			for k := 0; k < 4000; k++ {
				mins := (k*37+g*101)%20000 - 10000
				lit := ref.FormatSignedDuration(mins)
				if mins >= 0 {
					lit = ref.FormatPlainDuration(mins)
				}
				if d, err := klog.NewDurationFromString(lit); err != nil || d.ToString() != lit || d.InMinutes() != mins {
					note(fmt.Sprintf("duration %q does not round-trip under concurrent use", lit))
				}
				off := (k*13 + g*7) % 1440
				tl := ref.FormatTime(ref.TimeV{Off: off, H12: k%2 == 0})
				if t, err := klog.NewTimeFromString(tl); err != nil || t.ToString() != tl {
					note(fmt.Sprintf("time %q does not round-trip under concurrent use", tl))
				} else if t2, perr := t.Plus(klog.NewDuration(0, 1)); perr == nil {
					_ = t2.ToString()
				}
				dl := ref.FormatDate(ref.DateFromDays(ref.DaysFromCivil(2000, 1, 1)+(k*17+g)%9000), k%3 != 0)
				if d, err := klog.NewDateFromString(dl); err != nil || d.ToString() != dl {
					note(fmt.Sprintf("date %q does not round-trip under concurrent use", dl))
				} else {
					_ = d.PlusDays(1).ToString()
					_ = d.Weekday()
				}
				n += 3
			}
			mu.Lock()
			calls += n
			mu.Unlock()
		}(g)
	}
	wg.Wait()
	if bad != "" {
		e.Violation("value-round-trip-under-concurrent-use", bad, nil)
	}
	e.Evals(calls)
	e.Count("concurrent_value_round_trips_under_race_detector", calls)
	e.End(0)
}
