package props

import (
	"fmt"

	"github.com/jotaen/klog/klog/app"
	"github.com/jotaen/klog/klog/app/cli"
	"github.com/jotaen/klog/klog/app/cli/util"
	"os"
	"path/filepath"
	"sort"
	"strconv"
	"strings"

	"verifharness/core"
	"verifharness/obs"
	"verifharness/ref"
)

// C19 — the bookmark database behaves as a persistent name-to-file map.

var c19NamePool = []string{"work", "home", "a", "b", "zeta", "alpha", "default", "@work", "@default", "@", "Work", "wörk", "日本", "my file", "it's", "say \"hi\"", "back\\slash", "team@", "team", "a@b", "x.y", "über",
	"project-1", "under_score", "semi;colon", "tab\tname", "emoji😀", "UPPER", "mixedCase", "0", "007", "a b c", "né", "né"}

func init() {
	// names that look like paths: a bookmark name is whatever follows the '@', also when it contains separators or dots
	c19NamePool = append(c19NamePool, "clients/acme", "a/b/c", "dot.klg", "../up", "x:y", "@clients/acme")
	// names that differ in letter case only, and names whose byte order and case-folded order differ
	c19NamePool = append(c19NamePool, "Work", "work", "WORK", "Zeta", "zeta", "Alpha", "home", "Home", "Default", "DEFAULT", "default", "@Default",
		// blanks at the edges are part of a name
		"w ", " w", "w", "nb\u00a0", "tab\t", "\u3000wide",
		// characters a serialiser has to escape and a reader has to take back: controls, DEL, private-use and non-characters
		"del\x7f", "bell\a", "v\vt", "\x01soh", "esc\x1b[0m", "pua\U000F0000", "max\U0010FFFF", "bs\b", "ff\f", "cr\rx", "\u2028ls", "\ufeffbom", "\ufffdrepl", "<&>", "u\u0085nel", "\u200bzw",
		// names that are numbers: a name is text, `10` comes before `9`
		"9", "10", "100", "2", "+5", "1x", "1e3", "0x10", "٣",
		// names that differ by a character without width of its own (joiners, selectors)
		"dev\U0001F469\u200d\U0001F4BB", "dev\U0001F469\U0001F4BB", "mi\u200cra", "mira", "v\ufe0f", "v", "so\u00adft", "soft")
}

// c19RandomName draws an arbitrary valid-UTF-8 name (1-8 characters) that does not start with '-' and does not contain " -> " or a newline.
func c19RandomName(r *core.Rand) string {
	alphabet := []string{"a", "b", "Z", "0", "9", " ", "'", "\"", "\\", "@", ".", "/", ":", ";", "é", "ß", "日", "😀", "_", "-", "~", "#", "%", "&", "=", "(", ")", "é"}
	for {
		n := r.Range(1, 8)
		var sb strings.Builder
		for i := 0; i < n; i++ {
			sb.WriteString(alphabet[r.Intn(len(alphabet))])
		}
		s := sb.String()
		if strings.HasPrefix(s, "-") || strings.Contains(s, " -> ") || strings.TrimLeft(s, "@") == "" || strings.HasPrefix(strings.TrimLeft(s, "@"), "-") {
			continue
		}
		return s
	}
}

func c19Norm(name string) string {
	n := strings.TrimLeft(name, "@")
	if n == "" {
		n = "default"
	}
	return n
}

func init() {
	core.Register(&core.Prop{
		ID:    "C19",
		Level: "exploration",
		Rule: "histories of 8-40 operations (set 45%, unset 20% incl. unknown names, clear 5%, set of a missing target with/without --force, overwrite, set while the database file cannot be written - which must not report success) over a pool of 2-6 names per history drawn from {ASCII, with/without leading @, Unicode incl. NFC/NFD twins, blanks, both quote characters, backslash, tab, `default`, `@`, trailing/inner @} " +
			"and 3-6 target files whose paths contain blanks, quotes, non-ASCII and `..` segments; every target holds a unique total so that `klog total @name` identifies the resolved file. each operation is a separate `main.Run` on a fresh context over one config folder (state flows only through bookmarks.json), 1 in 16 histories as real processes of the binary. " +
			"after EVERY operation: `bookmarks list` parsed and compared with the reference map (set equality; order for plain lower-case names), bookmarks.json decoded independently == map with absolute paths, two `bookmarks info` and `klog total @name` probes incl. an absent name and the default-bookmark resolution without argument; " +
			"a failed unset must return non-zero and leave bookmarks.json byte-identical; at the end every key is probed. non-trivial & distinct = histories with >=2 overwrites, >=1 successful and >=1 failed unset and a clear followed by further sets, by hash",
		Assumptions: []string{"names starting with '-' (read as flags) and names containing ' -> ' are outside the stated domain; a path argument of `bookmarks set` may start with '@' (it is a path), an input argument starting with '@' is a bookmark reference; concurrent invocations are not claimed"},
		MaxShards:   16,
		Planned:     func(tier string, seed uint64) int64 { return map[string]int64{"quick": 200, "thorough": 6000}[tier] },
		Run:         runC19,
	})
}

type c19Op struct {
	Kind   string // set, set-missing, set-force, unset, clear
	Name   string
	Target int
}

func runC19(e *core.Env) {
	total := int64(e.N(200, 6000))
	for i := int64(0); i < total; i++ {
		if !e.Mine(i) {
			continue
		}
		r := core.NewRand(e.Seed, 19, uint64(i))
		e.Begin(i, []byte(fmt.Sprintf("history %d", i)))
		c19History(e, r, i)
		e.End(i)
	}
}

func c19History(e *core.Env, r *core.Rand, idx int64) {
	root := filepath.Join(e.Dir, fmt.Sprintf("c19-%d", idx))
	_ = os.RemoveAll(root)
	defer os.RemoveAll(root)
	cfg := filepath.Join(root, "klog cfg")
	_ = os.MkdirAll(root, 0755)
	if !(idx%16 == 5 && e.KlogBin != "" && idx%32 == 5) {
		_ = os.MkdirAll(cfg, 0755)
	} // else: real processes whose KLOG_CONFIG_HOME does not exist yet - the first write has to create it there
	// targets
	dirs := []string{"plain", "with space", "quo'te", "dq\"x", "ünï", "nested/deep"}
	nT := r.Range(3, 6)
	var targetArgs, targetAbs []string
	for t := 0; t < nT; t++ {
		dir := filepath.Join(root, dirs[r.Intn(len(dirs))])
		_ = os.MkdirAll(dir, 0755)
		// few base names over several directories: different targets often share their base name
		name := r.Pick("times.klg", "b c.klg", "é.klg", "x'y.klg", "times.klg", "log[1].klg", "a*.klg", "t?.klg")
		if decoy, isPattern := map[string]string{"log[1].klg": "log1.klg", "a*.klg": "abc.klg", "t?.klg": "tx.klg"}[name]; isPattern {
			// a file name is a name, not a pattern: next to it lies a file that the name, read as a pattern, would match
			if _, err := os.Stat(filepath.Join(dir, decoy)); err != nil {
				_ = os.WriteFile(filepath.Join(dir, decoy), []byte("2020-01-01\n    7777m\n"), 0644)
			}
		}
		abs := filepath.Join(dir, name)
		if _, err := os.Stat(abs); err == nil {
			name = fmt.Sprintf("t%d %s", t, name)
			abs = filepath.Join(dir, name)
		}
		_ = os.WriteFile(abs, []byte(fmt.Sprintf("2020-01-01\n    %dm\n", 1000+t)), 0644)
		arg := abs
		if r.Chance(1, 3) {
			arg = filepath.Join(dir, "..", filepath.Base(dir), name) // `..` segment
		}
		targetArgs = append(targetArgs, arg)
		targetAbs = append(targetAbs, abs)
	}
	// a target given as a relative path whose first character is '@' (a file name, not a bookmark: `bookmarks set` takes a path);
	// the history runs with the root as working directory
	if old, werr := os.Getwd(); werr == nil && os.Chdir(root) == nil {
		defer os.Chdir(old)
		if r.Chance(1, 2) {
			rel := r.Pick("@home.klg", "@times.klg", "@work")
			_ = os.WriteFile(filepath.Join(root, rel), []byte(fmt.Sprintf("2020-01-01\n    %dm\n", 1000+nT)), 0644)
			targetArgs = append(targetArgs, rel)
			targetAbs = append(targetAbs, filepath.Join(root, rel))
			nT++
		}
	}
	missing := filepath.Join(root, "plain", "does not exist.klg")
	// names
	nN := r.Range(2, 6)
	var names []string
	numeric := r.Chance(1, 8) // a history whose names are (almost) all numbers
	for len(names) < nN {
		if numeric && r.Chance(5, 6) {
			names = append(names, r.Pick("9", "10", "100", "2", "+5", "1x", "007", "0", "1e3", "11", "1"))
			continue
		}
		if r.Chance(1, 3) {
			names = append(names, c19RandomName(r))
			continue
		}
		names = append(names, c19NamePool[r.Intn(len(c19NamePool))])
	}
	useBin := idx%16 == 5 && e.KlogBin != ""
	// an "editor" that only records the arguments it is started with (for `klog edit @name`)
	editLog := filepath.Join(root, "editlog.txt")
	recorder := filepath.Join(root, "rec.sh")
	_ = os.WriteFile(recorder, []byte("#!/bin/sh\nprintf '%s\\n' \"$#\" \"$@\" > '"+editLog+"'\n"), 0755)
	editorCfg := "editor = " + recorder + "\n"
	if st, serr := os.Stat(cfg); serr == nil && st.IsDir() {
		_ = os.WriteFile(filepath.Join(cfg, "config.ini"), []byte(editorCfg), 0644)
	} else {
		editorCfg = "" // (the histories that start without a config folder do without the editor probe)
	}
	model := map[string]string{}
	var trace []string
	w := func() map[string]any { return map[string]any{"history": trace, "config_dir": cfg} }
	run := func(args ...string) (int, string, string, bool) {
		if useBin {
			b := obs.RunBin(obs.BinEnv{Bin: e.KlogBin, ConfigDir: cfg, NoColor: true, WorkingDir: root}, args...)
			if b.Err != nil {
				e.Inconclusive("cannot run binary: " + b.Err.Error())
				return -1, "", "", false
			}
			if obs.LooksLikeGoCrash(b.Stdout + b.Stderr) {
				e.Violation("bookmark-command-crashes", fmt.Sprintf("klog %q crashed:\n%s", args, trunc(b.Stdout+b.Stderr, 800)), w())
				return b.Code, b.Stdout, b.Stderr, false
			}
			return b.Code, b.Stdout, b.Stderr, true
		}
		res := obs.RunCLI(obs.CLIEnv{ConfigDir: cfg, Cpus: 1, Theme: "no_colour", ConfigFile: editorCfg, Clock: obs.ClockAt(ref.Date{Y: 2024, M: 3, D: 15}, 600, 0)}, args...)
		if res.Panic != nil {
			e.Violation("bookmark-command-panics: "+res.Panic.Site(), fmt.Sprintf("klog %q: %s", args, res.Panic.Value), w())
			return -1, "", "", false
		}
		out := res.Out
		if res.Err != "" {
			out += res.Err + "\n" // main() prints errors to stdout
		}
		return res.Code, out, "", true
	}
	// observation commands: mostly on the struct path (fresh real context reading the same files), 1 in 6 rounds through the full CLI
	obsRound := 0
	observe := func(args ...string) (int, string, string, bool) {
		if useBin || obsRound%6 == 0 {
			return run(args...)
		}
		ctx, _, cerr := obs.NewCtx(obs.CtxOpts{ConfigDir: cfg, Cpus: 1, Theme: "no_colour", Clock: obs.ClockAt(ref.Date{Y: 2024, M: 3, D: 15}, 600, 0)})
		if cerr != nil {
			panic("harness: " + cerr.Error())
		}
		var err error
		pi := core.Guard(func() {
			switch {
			case args[0] == "bookmarks" && args[1] == "list":
				if aerr := (&cli.BookmarksList{}).Run(ctx); aerr != nil {
					err = aerr
				}
			case args[0] == "bookmarks" && args[1] == "info":
				err = (&cli.BookmarksInfo{Name: args[2]}).Run(ctx)
			case args[0] == "total":
				var in util.InputFilesArgs
				for _, a := range args[1:] {
					if !strings.HasPrefix(a, "--") {
						in.File = append(in.File, app.FileOrBookmarkName(a))
					}
				}
				if aerr := (&cli.Total{DecimalArgs: util.DecimalArgs{Decimal: true}, NoStyleArgs: util.NoStyleArgs{NoStyle: true}, WarnArgs: util.WarnArgs{NoWarn: true}, InputFilesArgs: in}).Run(ctx); aerr != nil {
					err = aerr
				}
			default:
				panic("harness: unknown observation command")
			}
		})
		if pi != nil {
			e.Violation("bookmark-command-panics: "+pi.Site(), fmt.Sprintf("klog %q: %s", args, pi.Value), w())
			return -1, "", "", false
		}
		code := 0
		out := ctx.Out.String()
		if err != nil {
			code = 1
			if ae, ok := err.(app.Error); ok {
				code = ae.Code().ToInt()
			}
		}
		return code, out, "", true
	}
	dbPath := filepath.Join(cfg, "bookmarks.json")
	overwrites, okUnsets, failedUnsets, clears, setsAfterClear := 0, 0, 0, 0, 0
	nOps := r.Range(8, 40)
	if e.Quick() {
		nOps = r.Range(8, 28)
	}
	for step := 0; step < nOps; step++ {
		var op c19Op
		switch k := r.Intn(100); {
		case k < 45:
			op = c19Op{"set", names[r.Intn(len(names))], r.Intn(nT)}
			if r.Chance(1, 8) {
				op.Name = "" // unnamed = @default
			}
		case k < 65:
			op = c19Op{Kind: "unset", Name: names[r.Intn(len(names))]}
			if r.Chance(1, 4) {
				op.Name = r.Pick("nosuch", "@nosuch", "zzz", "Work2")
			}
		case k < 70:
			op = c19Op{Kind: "clear"}
		case k < 76:
			op = c19Op{"set-missing", names[r.Intn(len(names))], -1}
		case k < 82:
			op = c19Op{"set-force", names[r.Intn(len(names))], -1}
		case k < 85:
			op = c19Op{"set-write-fault", names[r.Intn(len(names))], r.Intn(nT)}
		case k < 89:
			op = c19Op{"set-create-existing", names[r.Intn(len(names))], r.Intn(nT)}
		default:
			op = c19Op{"set", names[r.Intn(len(names))], r.Intn(nT)}
		}
		if op.Kind == "set-write-fault" {
			if st, serr := os.Stat(cfg); serr != nil || !st.IsDir() {
				op.Kind = "set" // the config folder does not exist yet (it is klog's to create): no place to plant the fault
			}
		}
		before, _ := os.ReadFile(dbPath)
		var args []string
		expectOK := true
		switch op.Kind {
		case "set":
			args = []string{"bookmarks", "set", targetArgs[op.Target]}
			if op.Name != "" {
				args = append(args, op.Name)
			}
			if _, had := model[c19Norm(op.Name)]; had {
				overwrites++
			}
			if clears > 0 {
				setsAfterClear++
			}
		case "set-missing":
			args = []string{"bookmarks", "set", missing, op.Name}
			if r.Chance(1, 3) && len(model) > 0 {
				// a relative path that spells an existing bookmark (`@name`): still a path, and no such file exists
				keys := make([]string, 0, len(model))
				for k := range model {
					keys = append(keys, k)
				}
				sort.Strings(keys)
				cand := "@" + keys[r.Intn(len(keys))]
				if _, serr := os.Stat(filepath.Join(root, cand)); serr != nil {
					args[2] = cand
				}
			}
			expectOK = false
		case "set-force":
			args = []string{"bookmarks", "set", "--force", missing, op.Name}
		case "set-create-existing":
			// --create on a target that already exists must fail and must not touch the database
			args = []string{"bookmarks", "set", "--create", targetArgs[op.Target], op.Name}
			expectOK = false
		case "set-write-fault":
			// the database cannot be written (it is a dangling symlink into a missing directory): the command must not report success
			args = []string{"bookmarks", "set", targetArgs[op.Target], op.Name}
			expectOK = false
			_ = os.Rename(dbPath, dbPath+".saved")
			_ = os.Symlink(filepath.Join(root, "missing-dir", "bookmarks.json"), dbPath)
		case "unset":
			args = []string{"bookmarks", "unset", op.Name}
			_, expectOK = model[c19Norm(op.Name)]
		case "clear":
			args = []string{"bookmarks", "clear", "--yes"}
			clears++
		}
		trace = append(trace, strings.Join(args[1:], " ¦ "))
		code, out, _, ok := run(args...)
		if op.Kind == "set-write-fault" {
			_ = os.Remove(dbPath)
			_ = os.Rename(dbPath+".saved", dbPath)
			before, _ = os.ReadFile(dbPath)
		}
		if !ok {
			return
		}
		if expectOK != (code == 0) {
			e.Violation("bookmark-operation-outcome", fmt.Sprintf("step %d `klog %s`: exit status %d, the map model expects %s\noutput: %s", step, strings.Join(args, " "), code, map[bool]string{true: "success", false: "failure"}[expectOK], trunc(out, 400)), w())
			return
		}
		if expectOK {
			switch op.Kind {
			case "set":
				model[c19Norm(op.Name)] = targetAbs[op.Target]
			case "set-force":
				model[c19Norm(op.Name)] = missing
			case "unset":
				delete(model, c19Norm(op.Name))
				okUnsets++
			case "clear":
				model = map[string]string{}
			}
		} else {
			if op.Kind == "unset" {
				failedUnsets++
			}
			after, _ := os.ReadFile(dbPath)
			if string(after) != string(before) {
				e.Violation("failed-operation-changes-database", fmt.Sprintf("step %d `klog %s` failed (exit %d) but bookmarks.json changed:\nbefore: %q\nafter:  %q", step, strings.Join(args, " "), code, trunc(string(before), 500), trunc(string(after), 500)), w())
				return
			}
		}
		obsRound++
		if !c19Observe(e, r, observe, model, dbPath, targetAbs, step == nOps-1, w) {
			return
		}
		if len(model) > 0 && r.Chance(1, 3) {
			keys := make([]string, 0, len(model))
			for k := range model {
				keys = append(keys, k)
			}
			sort.Strings(keys)
			totalOf := func(abs string) int {
				for t, a := range targetAbs {
					if a == abs {
						return 1000 + t
					}
				}
				return -1
			}
			// two bookmark arguments in one command (possibly the same bookmark, possibly two names for one file): each is
			// resolved on its own and contributes its file
			k1, k2 := keys[r.Intn(len(keys))], keys[r.Intn(len(keys))]
			if t1, t2 := totalOf(model[k1]), totalOf(model[k2]); t1 >= 0 && t2 >= 0 && !strings.HasPrefix(k1, "-") && !strings.HasPrefix(k2, "-") {
				code, out, _, ok := run("total", "--decimal", "--no-style", "--no-warn", "@"+k1, "@"+k2)
				if !ok {
					return
				}
				to, perr := parseTotalOutput(out)
				if code != 0 || perr != nil || to.Total != strconv.Itoa(t1+t2) {
					e.Violation("bookmark-resolution-wrong", fmt.Sprintf("`klog total @%s @%s` (exit %d) printed %q; the two bookmarks point to files whose totals are %d and %d", k1, k2, code, trunc(out, 200), t1, t2), w())
					return
				}
				e.Count("two_bookmark_argument_probes", 1)
				// a repeated prefix (`@@name`) names the same bookmark, and the bare `@` the default one
				code, out, _, ok = run("total", "--decimal", "--no-style", "--no-warn", "@@"+k1)
				if !ok {
					return
				}
				if to, perr := parseTotalOutput(out); code != 0 || perr != nil || to.Total != strconv.Itoa(t1) {
					e.Violation("bookmark-resolution-wrong", fmt.Sprintf("`klog total @@%s` (exit %d) printed %q; `bookmarks info @@%s` names the file whose total is %d", k1, code, trunc(out, 200), k1, t1), w())
					return
				}
				if td := totalOf(model["default"]); td >= 0 {
					code, out, _, ok = run("total", "--decimal", "--no-style", "--no-warn", "@")
					if !ok {
						return
					}
					if to, perr := parseTotalOutput(out); code != 0 || perr != nil || to.Total != strconv.Itoa(td) {
						e.Violation("default-bookmark-resolution-wrong", fmt.Sprintf("`klog total @` (exit %d) printed %q; @default points to the file whose total is %d", code, trunc(out, 200), td), w())
						return
					}
				}
			}
			// `klog edit @name` hands the editor exactly the bookmark's path, as one argument
			if editorCfg != "" && !strings.HasPrefix(k1, "-") && totalOf(model[k1]) >= 0 {
				_ = os.Remove(editLog)
				code, out, _, ok := run("edit", "@"+k1)
				if !ok {
					return
				}
				got, _ := os.ReadFile(editLog)
				if code != 0 || string(got) != "1\n"+model[k1]+"\n" {
					e.Violation("bookmark-resolution-wrong", fmt.Sprintf("`klog edit @%s` (exit %d, output %q) started the editor with the arguments (count, then one per line)\n%s\nthe bookmark points to %q", k1, code, trunc(out, 200), trunc(string(got), 400), model[k1]), w())
					return
				}
				e.Count("edit_probes", 1)
			}
		}
		e.Count("operations", 1)
	}
	e.Count("histories", 1)
	if useBin {
		e.Count("histories_as_real_processes", 1)
	}
	if overwrites >= 2 && okUnsets >= 1 && failedUnsets >= 1 && setsAfterClear >= 1 {
		e.Nontrivial(core.Hash64("c19", strings.Join(trace, "\n")))
	}
	if e.WantSample() && overwrites >= 2 && len(trace) < 16 {
		e.Sample(map[string]any{"history": trace, "final_map": model})
	}
}

func c19Observe(e *core.Env, r *core.Rand, run func(args ...string) (int, string, string, bool), model map[string]string, dbPath string, targetAbs []string, final bool, w func() map[string]any) bool {
	// 1. list
	code, out, _, ok := run("bookmarks", "list")
	if !ok {
		return false
	}
	if code != 0 {
		e.Violation("bookmarks-list-fails", fmt.Sprintf("`bookmarks list` exited with %d: %s", code, trunc(out, 300)), w())
		return false
	}
	listed := map[string]string{}
	var order []string
	if !(len(model) == 0 && strings.Contains(out, "no bookmarks")) {
		for _, l := range strings.Split(strings.TrimRight(out, "\n"), "\n") {
			k := strings.Index(l, " -> ")
			if !strings.HasPrefix(l, "@") || k < 0 {
				e.Violation("bookmarks-list-malformed", fmt.Sprintf("unexpected line in `bookmarks list`: %q", l), w())
				return false
			}
			listed[l[1:k]] = l[k+4:]
			order = append(order, l[1:k])
		}
	}
	if !c19SameMap(listed, model) {
		e.Violation("bookmarks-list-differs-from-map", fmt.Sprintf("`bookmarks list` shows %v, the map model is %v", c19Fmt(listed), c19Fmt(model)), w())
		return false
	}
	var plain []string
	for _, n := range order {
		if isLowerASCII(n) {
			plain = append(plain, n)
		}
	}
	if !sort.StringsAreSorted(plain) {
		e.Violation("bookmarks-list-unordered", fmt.Sprintf("`bookmarks list` is not ordered by name: %q", order), w())
		return false
	}
	// "ordered by name" means ONE order relation on names: two names stand in the same order in every listing of every
	// database this process has seen (a comparison that is not transitive shows up as a pair that flips)
	if len(order) <= 16 {
		for i := 0; i < len(order); i++ {
			for j := i + 1; j < len(order); j++ {
				a, b, first := order[i], order[j], true
				if a > b {
					a, b, first = b, a, false
				}
				if prev, seen := c19PairOrder[[2]string{a, b}]; seen && prev != first {
					e.Violation("bookmarks-list-not-one-order", fmt.Sprintf("`bookmarks list` shows %q and %q in this order here and in the opposite order in an earlier listing: %q", order[i], order[j], order), w())
					return false
				} else if !seen {
					c19PairOrder[[2]string{a, b}] = first
				}
			}
		}
	}
	// whatever collation "ordered by name" means for names beyond plain lower-case ASCII, it is one order: listing the
	// same database again shows the same sequence
	if _, out2, _, ok2 := run("bookmarks", "list"); ok2 && out2 != out {
		e.Violation("bookmarks-list-order-unstable", fmt.Sprintf("two consecutive `bookmarks list` of the same database differ:\n%s\n---\n%s", trunc(out, 400), trunc(out2, 400)), w())
		return false
	}
	// 2. database file
	raw, err := os.ReadFile(dbPath)
	if err != nil && len(model) > 0 {
		e.Violation("bookmark-database-unreadable", "bookmarks.json cannot be read although bookmarks exist: "+err.Error(), w())
		return false
	}
	fileMap := map[string]string{}
	if len(strings.TrimSpace(string(raw))) > 0 {
		v, derr := obs.DecodeJSON(raw)
		arr, isArr := v.([]any)
		if derr != nil || !isArr {
			e.Violation("bookmark-database-malformed", fmt.Sprintf("bookmarks.json is not one JSON array: %v\n%q", derr, trunc(string(raw), 500)), w())
			return false
		}
		for _, it := range arr {
			o, _ := it.(map[string]any)
			n, ok1 := obs.JStr(o, "name")
			p, ok2 := obs.JStr(o, "path")
			if !ok1 || !ok2 {
				e.Violation("bookmark-database-malformed", "entry without name/path: "+trunc(string(raw), 300), w())
				return false
			}
			if _, dup := fileMap[n]; dup {
				e.Violation("bookmark-database-duplicate-name", fmt.Sprintf("bookmarks.json contains the name %q twice", n), w())
				return false
			}
			fileMap[n] = p
		}
	}
	if !c19SameMap(fileMap, model) {
		e.Violation("bookmark-database-differs-from-map", fmt.Sprintf("bookmarks.json holds %v, the map model is %v", c19Fmt(fileMap), c19Fmt(model)), w())
		return false
	}
	// 3. probes
	var keys []string
	for k := range model {
		keys = append(keys, k)
	}
	sort.Strings(keys)
	probes := keys
	if !final && len(keys) > 2 {
		probes = []string{keys[r.Intn(len(keys))], keys[r.Intn(len(keys))]}
	}
	probes = append(probes, r.Pick("absent", "nosuch-key"))
	for _, k := range probes {
		want, present := model[k]
		code, out, _, ok := run("bookmarks", "info", "@"+k)
		if !ok {
			return false
		}
		if present != (code == 0) || (present && strings.TrimRight(out, "\n") != want) {
			e.Violation("bookmarks-info-differs-from-map", fmt.Sprintf("`bookmarks info @%s`: exit %d output %q; the map model says present=%v path=%q", k, code, trunc(out, 200), present, want), w())
			return false
		}
		// resolution through an evaluation command (sometimes with a blank argument in front, which klog documents as ignored)
		targs := []string{"total", "--decimal", "--no-style", "--no-warn", "@" + k}
		if r.Chance(1, 4) {
			targs = []string{"total", "--decimal", "--no-style", "--no-warn", r.Pick("", " ", "  "), "@" + k}
		}
		code, out, _, ok = run(targs...)
		if !ok {
			return false
		}
		wantTotal := ""
		for t, abs := range targetAbs {
			if abs == want {
				wantTotal = strconv.Itoa(1000 + t)
			}
		}
		switch {
		case present && wantTotal != "":
			to, perr := parseTotalOutput(out)
			if code != 0 || perr != nil || to.Total != wantTotal {
				e.Violation("bookmark-resolution-wrong", fmt.Sprintf("`klog total @%s` (exit %d) printed %q; the bookmark points to the file whose total is %s", k, code, trunc(out, 200), wantTotal), w())
				return false
			}
		case !present || wantTotal == "":
			if code == 0 {
				e.Violation("bookmark-resolution-wrong", fmt.Sprintf("`klog total @%s` succeeded although the bookmark is absent / points to a missing file: %q", k, trunc(out, 200)), w())
				return false
			}
		}
		e.Count("probes", 1)
	}
	// default resolution without argument
	if final || r.Chance(1, 4) {
		code, out, _, ok := run("total", "--decimal", "--no-style", "--no-warn")
		if !ok {
			return false
		}
		want, present := model["default"]
		wantTotal := ""
		for t, abs := range targetAbs {
			if abs == want {
				wantTotal = strconv.Itoa(1000 + t)
			}
		}
		if present && wantTotal != "" {
			to, perr := parseTotalOutput(out)
			if code != 0 || perr != nil || to.Total != wantTotal {
				e.Violation("default-bookmark-resolution-wrong", fmt.Sprintf("`klog total` without argument (exit %d) printed %q; @default points to the file whose total is %s", code, trunc(out, 200), wantTotal), w())
				return false
			}
		} else if code == 0 {
			e.Violation("default-bookmark-resolution-wrong", fmt.Sprintf("`klog total` without argument succeeded although there is no usable default bookmark: %q", trunc(out, 200)), w())
			return false
		}
	}
	return true
}

// c19PairOrder remembers, per pair of names (smaller string first), whether the smaller string was listed first.
var c19PairOrder = map[[2]string]bool{}

func isLowerASCII(s string) bool {
	if s == "" {
		return false
	}
	for _, c := range s {
		if c < 'a' || c > 'z' {
			return false
		}
	}
	return true
}

func c19SameMap(a, b map[string]string) bool {
	if len(a) != len(b) {
		return false
	}
	for k, v := range a {
		if bv, ok := b[k]; !ok || bv != v {
			return false
		}
	}
	return true
}

func c19Fmt(m map[string]string) string {
	var ks []string
	for k := range m {
		ks = append(ks, k)
	}
	sort.Strings(ks)
	var sb strings.Builder
	for _, k := range ks {
		fmt.Fprintf(&sb, "%q→%q ", k, filepath.Base(m[k]))
	}
	return sb.String()
}
