package props

import (
	"fmt"
	"strings"
	"unicode/utf8"

	"github.com/jotaen/klog/klog/parser"
	"verifharness/core"
	"verifharness/gen"
	"verifharness/obs"
	"verifharness/ref"
)

// C10 — syntax errors are reported at the right place and can always be displayed.

func init() {
	core.Register(&core.Prop{
		ID:    "C10",
		Level: "exploration",
		Rule: "invalid texts: generated documents (hostile layouts, CRLF, Unicode, '%' and other look-alike text) with ONE rule-violating edit from the 18-operator catalogue at a PRNG position biased to first/last lines and records " +
			"(the line where conformance stops is determined by the independent line automaton), plus multi-fault texts for the bounds/ordering clauses. serial and a parallel engine. " +
			"oracle per error: 1 <= line <= #lines, LineText == that physical line, position >= 0, length >= 0, position+length <= runes(line)+1, lines non-decreasing; first error on the automaton's first non-conforming line; " +
			"for 1 in 4 cases `klog print FILE` (terminal report under no_colour or a colour theme, SGR stripped by the harness) and `klog json FILE` must show the same line/column/length/message and must not fail. " +
			"non-trivial & distinct = (broken rule, position class, layout class, engine) combinations and distinct mutant texts, by hash",
		Assumptions: []string{"faults whose line is ambiguous between two readings of the specification (Zs-only lines) are used for bounds/rendering only"},
		Planned: func(tier string, seed uint64) int64 {
			return map[string]int64{"quick": 30000, "thorough": 1200000}[tier]
		},
		Run: runC10,
	})
}

func runC10(e *core.Env) {
	total := int64(e.N(30000, 1200000))
	for i := int64(0); i < total; i++ {
		if !e.Mine(i) {
			continue
		}
		r := core.NewRand(e.Seed, 10, uint64(i))
		o := gen.Opts{MaxRecs: 5, MaxEntries: 4, Unicode: r.Bool(), Hostile: r.Chance(2, 3), OpenRanges: 1, Tags: r.Intn(2), TrailingBlank: r.Chance(1, 3), LookAlikes: r.Chance(1, 2), MinRecs: 1}
		d := gen.Document(r, o)
		m, ok := gen.Mutate(r, d)
		if !ok {
			continue
		}
		text := m.Text
		single := true
		rules := m.Rule
		if r.Chance(1, 12) {
			// a valid document decorated with stray CRs, NULs and non-UTF-8 bytes in its summaries: if anything is reported for
			// it, the report has to be well-formed
			if t2, ok2 := c08Decorate(r, d); ok2 {
				text, rules, single = t2, "decorated-valid-document", false
			}
		}
		if r.Chance(1, 5) {
			// multi-fault: append further mutated documents
			for k := r.Range(1, 3); k > 0; k-- {
				d2 := gen.Document(r, gen.Opts{MaxRecs: 3, MinRecs: 1, Hostile: true, Unicode: true, OpenRanges: 1})
				if m2, ok2 := gen.Mutate(r, d2); ok2 {
					sep := "\n\n"
					if strings.HasSuffix(text, "\r\n") {
						sep = "\r\n"
					}
					if !strings.HasSuffix(text, "\n") {
						sep = "\n" + sep
					}
					text += sep + m2.Text
					rules += "+" + m2.Rule
					single = false
				}
			}
		}
		if r.Chance(1, 8) {
			text = c10Stretch(r, text) // faulty lines far wider than a terminal, the fault far to the right
			rules += "+stretched"
		}
		if r.Chance(1, 10) {
			text = c10EightBit(r, text) // a run of bytes of an 8-bit encoding in front of the fault: one character each, wherever the line is shown
			rules += "+8bit"
		}
		e.Begin(i, []byte(text))
		c10Check(e, r, i, text, rules, single, m, d)
		e.End(i)
	}
}

// c10Stretch widens the first faulty line: a run of 80-300 blanks is inserted after its first token (or blanks and a
// stray character are appended), so that the line is longer than any terminal and faults lie beyond column 80.
func c10Stretch(r *core.Rand, text string) string {
	rec := ref.Recognise(text)
	if rec.Verdict != ref.NonConforming {
		return text
	}
	ls := ref.SplitLines(text)
	if rec.BadLine < 0 || rec.BadLine >= len(ls) {
		return text
	}
	l := ls[rec.BadLine].Text
	a := 0
	for a < len(l) && (l[a] == ' ' || l[a] == '\t') {
		a++
	}
	pad := strings.Repeat(" ", r.PickInt(80, 120, 300))
	if b := strings.IndexByte(l[a:], ' '); b >= 0 {
		l = l[:a+b] + pad + l[a+b:]
	} else {
		l = l + pad + r.Pick("x", "(8h", "-", "?")
	}
	ls[rec.BadLine].Text = l
	var sb strings.Builder
	for _, x := range ls {
		sb.WriteString(x.Text)
		sb.WriteString(x.Ending)
	}
	return sb.String()
}

// c10EightBit puts two to four neighbouring bytes that are not UTF-8 (letters of an 8-bit encoding, a truncated multi-byte
// character) right behind the indentation of the first faulty line, or at its end.
func c10EightBit(r *core.Rand, text string) string {
	rec := ref.Recognise(text)
	if rec.Verdict != ref.NonConforming {
		return text
	}
	ls := ref.SplitLines(text)
	if rec.BadLine < 0 || rec.BadLine >= len(ls) {
		return text
	}
	l := ls[rec.BadLine].Text
	a := 0
	for a < len(l) && (l[a] == ' ' || l[a] == '\t') {
		a++
	}
	run := r.Pick("\xfc\xdf", "\xe2\x82", "\xfc\xdf\xe4\xf6", "\xff\xfe\xfd", "\xc3\xc3")
	if r.Bool() {
		l = l[:a] + run + l[a:]
	} else {
		l = l + " Gr" + run + "e"
	}
	ls[rec.BadLine].Text = l
	var sb strings.Builder
	for _, x := range ls {
		sb.WriteString(x.Text)
		sb.WriteString(x.Ending)
	}
	return sb.String()
}

func c10Check(e *core.Env, r *core.Rand, idx int64, text, rules string, single bool, m gen.Mutant, d *gen.Out) {
	rec := ref.Recognise(text)
	// known: the reference knows where the text stops conforming. Otherwise (conforming or undecided for the reference) nothing
	// is said about WHETHER klog reports errors (that is C01) - but every error it does report must still be well-formed
	// (an existing line, quoted verbatim, a span inside it, displayable).
	known := rec.Verdict == ref.NonConforming
	if !known {
		e.Count("texts_not_rejected_by_the_reference_"+rec.Verdict.String(), 1)
	}
	w := map[string]any{"text": text, "operator": rules, "expected_first_bad_line": rec.BadLine + 1, "rule": rec.Rule}
	if !known {
		w = map[string]any{"text": text, "operator": rules, "reference_verdict": rec.Verdict.String()}
	}
	lines := ref.SplitLines(text)
	engines := []struct {
		name string
		p    parser.Parser
	}{{"serial", parser.NewSerialParser()}, {"", nil}}
	n := r.PickInt(2, 3, 5, len(text))
	if n < 2 {
		n = 2
	}
	engines[1].name, engines[1].p = fmt.Sprintf("parallel(%d)", n), parser.NewParallelParser(n)
	var serialErrs []obs.ErrInfo
	for _, en := range engines {
		t, pi := parseWith(en.p, text)
		if pi != nil {
			e.Violation("panic: "+pi.Site(), en.name+" parser: "+pi.Value, w)
			return
		}
		if len(t.Errs) == 0 {
			// acceptance of non-conforming text is C01's subject; nothing to check here
			e.Count("no_errors_reported", 1)
			return
		}
		if en.name == "serial" {
			serialErrs = t.Errs
		}
		prev := 0
		for k, er := range t.Errs {
			if er.Panic != "" {
				e.Violation("error-accessor-panics", fmt.Sprintf("%s: accessor of error #%d panicked: %s", en.name, k, er.Panic), w)
				continue
			}
			if er.Line < 1 || er.Line > len(lines) {
				e.Violation("error-line-out-of-range", fmt.Sprintf("%s: error #%d (%s) names line %d, the text has %d lines", en.name, k, er.Code, er.Line, len(lines)), w)
				continue
			}
			src := lines[er.Line-1].Text
			if er.LineText != src {
				e.Violation("error-quotes-wrong-line", fmt.Sprintf("%s: error #%d (%s) in line %d quotes %q, that line is %q", en.name, k, er.Code, er.Line, er.LineText, src), w)
			}
			nr := utf8.RuneCountInString(strings.ToValidUTF8(src, "�"))
			nr = len([]rune(src))
			if er.Pos < 0 || er.Len < 0 || er.Pos+er.Len > nr+1 {
				e.Violation("error-span-out-of-line", fmt.Sprintf("%s: error #%d (%s) in line %d: position %d + length %d exceeds the line (%d characters): %q", en.name, k, er.Code, er.Line, er.Pos, er.Len, nr, src), w)
			}
			if er.Col != er.Pos+1 {
				e.Violation("error-column", fmt.Sprintf("%s: error #%d: column %d for position %d", en.name, k, er.Col, er.Pos), w)
			}
			if er.Line < prev {
				e.Violation("errors-not-ascending", fmt.Sprintf("%s: error #%d is on line %d after an error on line %d", en.name, k, er.Line, prev), w)
			}
			if k > 0 && t.Errs[k-1].Panic == "" && er.Line == prev && er.Pos == t.Errs[k-1].Pos && er.Len == t.Errs[k-1].Len && er.Code == t.Errs[k-1].Code {
				// one fault, one report: the very same report twice means that one of two faults is not shown where it is
				e.Violation("error-reported-twice", fmt.Sprintf("%s: errors #%d and #%d are the same report (%s, line %d, position %d, length %d): %q", en.name, k-1, k, er.Code, er.Line, er.Pos, er.Len, src), w)
			}
			prev = er.Line
			if er.Message != er.Title+": "+er.Details || er.Title == "" {
				e.Violation("error-message", fmt.Sprintf("%s: error #%d: inconsistent title/details/message", en.name, k), w)
			}
		}
		if known && !rec.LineAmbiguous && rec.Rule == "second open range in a record" && t.Errs[0].Panic == "" && t.Errs[0].Line == rec.BadLine+1 {
			// where the rule that is broken names a thing on the line, the marked span is that thing: the second open range
			// itself (its start time up to the last placeholder character), not the summary behind it
			er := t.Errs[0]
			rs := []rune(lines[er.Line-1].Text)
			if er.Pos >= 0 && er.Len >= 0 && er.Pos+er.Len <= len(rs) {
				marked := strings.TrimRight(string(rs[er.Pos:er.Pos+er.Len]), " \t") // (klog includes the blank that separates the summary)
				en, v, _ := ref.ParseEntryText(marked)
				if v != ref.Conforming || en.Kind != ref.KOpen || !strings.HasSuffix(marked, "?") {
					e.Violation("error-span-does-not-mark-the-open-range", fmt.Sprintf("%s: the error for the second open range in line %d marks %q (position %d, length %d) of the line %q; the open range itself is what is wrong", en0name(en.Kind), er.Line, marked, er.Pos, er.Len, lines[er.Line-1].Text), w)
				} else {
					e.Count("second_open_range_spans_checked", 1)
				}
			}
		}
		if known && !rec.LineAmbiguous && t.Errs[0].Panic == "" && t.Errs[0].Line != rec.BadLine+1 {
			e.Violation("first-error-on-wrong-line", fmt.Sprintf("%s: first error (%s) is reported on line %d, but the text stops conforming on line %d (%s): %q", en.name, t.Errs[0].Code, t.Errs[0].Line, rec.BadLine+1, rec.Rule, lines[rec.BadLine].Text), w)
		}
		if single && known {
			layout := ""
			for _, f := range []string{"crlf", "mixed_eol", "no_final_newline", "leading_blank_lines"} {
				if d.Feat[f] {
					layout += f + ","
				}
			}
			e.Distinct("rule_position_layout_engine", core.Hash64(rec.Rule, m.PosClass, layout, en.name[:3]))
		}
	}
	if known {
		e.Count("invalid_texts", 1)
		e.Count("rule_"+rec.Rule, 1)
		e.Nontrivial(core.Hash64("c10", text))
	} else {
		e.Count("errors_reported_for_texts_the_reference_does_not_reject", 1)
	}
	if known && e.WantSample() && len(text) < 300 {
		e.Sample(map[string]any{"text": text, "operator": rules, "first_bad_line": rec.BadLine + 1, "errors": serialErrs})
	}
	if idx%4 == 0 {
		c10Renderings(e, r, idx, text, serialErrs, w)
	}
}

func normWS(s string) string { return strings.Join(strings.Fields(s), " ") }

func c10Renderings(e *core.Env, r *core.Rand, idx int64, text string, api []obs.ErrInfo, w map[string]any) {
	for _, er := range api {
		if er.Panic != "" {
			return // already reported
		}
	}
	f := writeFile(e.Dir, "bad.klg", text)
	fileArgs := []string{f}
	if idx%12 == 0 {
		// a valid file in front of the invalid one: the report must still name the invalid file and ITS line numbers
		fileArgs = []string{writeFile(e.Dir, "good.klg", "2020-01-01\nfine\n    1h\n\n2020-01-02\n    2h\n"), f}
		e.Count("renderings_with_two_input_files", 1)
	}
	type expErr struct {
		obs.ErrInfo
		file string
	}
	var exp []expErr
	for _, a := range api {
		exp = append(exp, expErr{a, f})
	}
	if idx%12 == 4 {
		// two faulty files, the later-sorting path first, more than a dozen errors in all: the report lists the errors file by
		// file in the order of the arguments, each file's errors in line order
		big := strings.Repeat(text+"\n\n", 8)
		if t1, pi := parseWith(parser.NewSerialParser(), big); pi == nil && len(t1.Errs) > 0 {
			ok := true
			for _, er := range t1.Errs {
				if er.Panic != "" {
					ok = false
				}
			}
			if ok {
				zz, aa := writeFile(e.Dir, "zz-given-first.klg", big), writeFile(e.Dir, "aa-given-second.klg", text)
				fileArgs = []string{zz, aa}
				exp = nil
				for _, a := range t1.Errs {
					exp = append(exp, expErr{a, zz})
				}
				for _, a := range api {
					exp = append(exp, expErr{a, aa})
				}
				e.Count("renderings_with_two_faulty_files", 1)
			}
		}
	}
	themes := []string{"no_colour"}
	if idx%8 == 0 {
		themes = []string{r.Pick("dark", "light", "basic")}
	}
	for _, th := range themes {
		res := obs.RunCLI(obs.CLIEnv{ConfigDir: e.Dir + "/cfg", Cpus: r.PickInt(1, 1, 4), Theme: th, Clock: obs.ClockAt(ref.Date{Y: 2024, M: 3, D: 15}, 700, 0)}, append([]string{"print"}, fileArgs...)...)
		if res.Panic != nil {
			e.Violation("terminal-report-panics: "+res.Panic.Site(), fmt.Sprintf("klog print (theme %s) panicked while reporting the errors: %s", th, res.Panic.Value), w)
			continue
		}
		if res.Code == 0 {
			e.Violation("invalid-file-exit-status", "klog print returned exit status 0 for an invalid file", w)
			continue
		}
		tes, perr := obs.ParseTermErrors(obs.StripSGR(res.Err))
		if perr != nil {
			e.Violation("terminal-report-malformed", fmt.Sprintf("theme %s: %v\nreport:\n%s", th, perr, trunc(obs.StripSGR(res.Err), 1500)), w)
			continue
		}
		if len(tes) != len(exp) {
			e.Violation("terminal-report-error-count", fmt.Sprintf("theme %s: report shows %d errors, the parser returned %d", th, len(tes), len(exp)), w)
			continue
		}
		for k, te := range tes {
			a := exp[k]
			wantQuoted := strings.ReplaceAll(a.LineText, "\t", " ")
			if te.Line != a.Line || te.Pos != a.Pos || te.Len != a.Len || te.Quoted != wantQuoted || te.Message != normWS(a.Message) || te.File != a.file {
				e.Violation("terminal-report-differs", fmt.Sprintf("theme %s, error #%d: report shows line %d, %d blanks + %d carets, quoted %q, file %q, message %q;\nAPI says line %d, position %d, length %d, line text %q, message %q",
					th, k, te.Line, te.Pos, te.Len, te.Quoted, te.File, te.Message, a.Line, a.Pos, a.Len, wantQuoted, normWS(a.Message)), w)
				break
			}
		}
		e.Count("terminal_reports_checked", 1)
	}
	if idx%40 == 4 && e.KlogBin != "" && !strings.Contains(text, "\x00") {
		// the same text on stdin of the real binary: line numbers must not depend on where the text comes from
		b := obs.RunBin(obs.BinEnv{Bin: e.KlogBin, ConfigDir: e.Dir + "/bincfg", Stdin: []byte(text)}, "json")
		if b.Err == nil {
			if obs.LooksLikeGoCrash(b.Stdout + b.Stderr) {
				e.Violation("json-report-panics: binary", trunc(b.Stderr+b.Stdout, 600), w)
				return
			}
			_, errsArr, _, _, jerr := decodeJSONEnvelope(b.Stdout)
			if jerr != nil || len(errsArr) != len(api) {
				e.Violation("json-report-differs", fmt.Sprintf("text on stdin of the real binary: %d errors (decode error %v), the parser returns %d", len(errsArr), jerr, len(api)), w)
				return
			}
			for k, raw := range errsArr {
				o, _ := raw.(map[string]any)
				ln, _ := obs.JInt(o, "line")
				col, _ := obs.JInt(o, "column")
				if ln != api[k].Line || col != api[k].Pos+1 {
					e.Violation("json-report-differs", fmt.Sprintf("text on stdin of the real binary: error #%d at line %d column %d, the parser says line %d column %d", k, ln, col, api[k].Line, api[k].Pos+1), w)
					return
				}
			}
			e.Count("stdin_reports_checked", 1)
		}
	}
	for _, pretty := range []bool{idx%16 == 0} {
		args := append([]string{"json"}, fileArgs...)
		if pretty {
			args = append([]string{"json", "--pretty"}, fileArgs...)
		}
		res := obs.RunCLI(obs.CLIEnv{ConfigDir: e.Dir + "/cfg", Cpus: r.PickInt(1, 3), Clock: obs.ClockAt(ref.Date{Y: 2024, M: 3, D: 15}, 700, 0)}, args...)
		if res.Panic != nil {
			e.Violation("json-report-panics: "+res.Panic.Site(), "klog json panicked while reporting the errors: "+res.Panic.Value, w)
			continue
		}
		v, derr := obs.DecodeJSON([]byte(res.Out))
		if derr != nil {
			e.Violation("json-report-malformed", fmt.Sprintf("klog json output is not one JSON document: %v\n%s", derr, trunc(res.Out, 600)), w)
			continue
		}
		top, _ := v.(map[string]any)
		errsArr, ok := obs.JArr(top, "errors")
		if !ok || top["records"] != nil {
			e.Violation("json-report-shape", "for an invalid file `errors` must be an array and `records` null: "+trunc(res.Out, 300), w)
			continue
		}
		if len(errsArr) != len(exp) {
			e.Violation("json-report-error-count", fmt.Sprintf("json shows %d errors, the parser returned %d", len(errsArr), len(exp)), w)
			continue
		}
		for k, raw := range errsArr {
			o, _ := raw.(map[string]any)
			a := exp[k]
			ln, _ := obs.JInt(o, "line")
			col, _ := obs.JInt(o, "column")
			lg, _ := obs.JInt(o, "length")
			title, _ := obs.JStr(o, "title")
			details, _ := obs.JStr(o, "details")
			file, _ := obs.JStr(o, "file")
			if ln != a.Line || col != a.Pos+1 || lg != a.Len || title != a.Title || details != a.Details || file != a.file {
				e.Violation("json-report-differs", fmt.Sprintf("error #%d: json shows line %d column %d length %d title %q file %q; API says line %d position %d length %d title %q", k, ln, col, lg, title, file, a.Line, a.Pos, a.Len, a.Title), w)
				break
			}
		}
		e.Count("json_reports_checked", 1)
	}
}

func en0name(k ref.EntKind) string { return "parser" }
