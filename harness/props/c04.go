package props

import (
	"fmt"
	"os"
	"strings"

	"github.com/jotaen/klog/klog/parser"
	"verifharness/core"
	"verifharness/gen"
	"verifharness/obs"
	"verifharness/ref"
)

// C04 — mutating commands have exactly their intended effect over any command history.

func init() {
	core.Register(&core.Prop{
		ID:    "C04",
		Level: "exploration",
		Rule: "histories of 4-30 mutating commands (track, start, stop, switch, pause, create) starting from a generated valid file in a hostile admissible layout; the file written by one command is the input of the next. " +
			"parameters: dates {today, yesterday, tomorrow flags, explicit existing/absent/far dates}, times {explicit incl. shifted and 12h, clock-derived with --round or default_rounding}, summaries {none, one line, multi-line, with tags, look-alikes}, --resume, --resume-nth +-k (valid and out of range), conflicting flags, " +
			"invalid entry texts, default_should_total / date_format / time_convention configured or not, clock advancing within and across days; pause loops are driven through hook H2 with scripted clock readings (sub-minute steps, minute steps, hours-long forward jumps, backward jumps, --extend, --no-tags). " +
			"after EVERY command the file is read back and compared with an abstract edit model (harness/props/editmodel.go): same success/failure, on failure byte-identical file, on success exactly the predicted records (values, summaries, order; notation of freshly generated literals free). " +
			"struct path for volume, 1 in 12 histories through the full CLI (kong decoding of \\n, \\-45m, --resume-nth=-1), 1 in 40 as real separate processes with a pinned clock. " +
			"non-trivial & distinct = histories with >=3 accepted commands of >=3 kinds, >=1 rejected command and >=1 command that targets a record created earlier in the same history, by hash",
		Assumptions: []string{
			"read-back uses klog's serial parser, whose faithfulness is C01's subject",
			"where two earlier records share the latest earlier date, --resume may take either; in files that are not date-sorted only the relative order of the other records is demanded for a new record",
		},
		Planned: func(tier string, seed uint64) int64 { return map[string]int64{"quick": 1800, "thorough": 90000}[tier] },
		Run:     runC04,
	})
}

func readBack(text string) (*ref.Doc, string) {
	rs, _, errs := parser.NewSerialParser().Parse(text)
	if errs != nil {
		ei := obs.ErrorsOf(errs)
		return nil, fmt.Sprintf("line %d: %s", ei[0].Line, ei[0].Title)
	}
	return obs.DocOf(rs), ""
}

func runC04(e *core.Env) {
	total := int64(e.N(1800, 90000))
	for i := int64(0); i < total; i++ {
		if !e.Mine(i) {
			continue
		}
		r := core.NewRand(e.Seed, 4, uint64(i))
		e.Begin(i, []byte(fmt.Sprintf("history %d", i)))
		c04History(e, r, i)
		e.End(i)
	}
}

type histStep struct {
	Cmd    string `json:"cmd"`
	Clock  string `json:"clock"`
	Config string `json:"config,omitempty"`
	Model  string `json:"model"`
	Klog   string `json:"klog"`
}

func c04History(e *core.Env, r *core.Rand, idx int64) {
	y := r.PickInt(2024, 2024, 2023, 1999, 2400)
	today := ref.Date{Y: y, M: r.Range(1, 12), D: 1}
	today.D = r.PickInt(1, 15, 28, ref.DaysInMonth(today.Y, today.M))
	if r.Chance(1, 5) {
		today = obs.DSTDates[r.Intn(len(obs.DSTDates))]
	}
	d := gen.Document(r, gen.Opts{MaxRecs: r.PickInt(6, 6, 6, 14), MaxEntries: 4, Near: &today, NearSpread: r.PickInt(1, 2, 5), Sorted: r.Chance(3, 4), NoDupDates: r.Chance(2, 3), Hostile: r.Chance(2, 3), OpenRanges: 1,
		Tags: 1, Unicode: r.Chance(1, 4), LookAlikes: r.Chance(1, 3), TrailingBlank: false, MaxHours: 12})
	pauseFirst := false
	if core.Hash64("c04-pause-first", fmt.Sprint(e.Seed, idx))%12 == 0 {
		// today's record holds an open range and an earlier pause whose summary is separated by a tab or several blanks;
		// the history begins with `pause --extend`
		hasToday := false
		for i := range d.Doc.Recs {
			if d.Doc.Recs[i].Date == today {
				hasToday = true
			}
		}
		if !hasToday {
			extra := ref.FormatDate(today, true) + "\n    0:01 - ? work #proj\n    -5m lunch break #food\n        and a walk\n"
			if x, ok := withAppended(d, extra); ok {
				d, pauseFirst = x, true
				if r.Chance(2, 3) { // same records, the separator spelt as a tab (klog reads it the same way)
					d = &gen.Out{Text: strings.Replace(d.Text, "    -5m lunch break #food", "    -5m\tlunch break #food", 1), Doc: d.Doc, Feat: d.Feat}
				}
			}
		}
	}
	if core.Hash64("c04-tab", fmt.Sprint(e.Seed, idx))%5 == 0 && !pauseFirst {
		// a tab instead of the blank between an entry's value and its summary (same records, another spelling)
		d = &gen.Out{Text: c03Tabify(r, d), Doc: d.Doc, Feat: d.Feat}
	}
	if k := core.Hash64("c04-size", fmt.Sprint(e.Seed, idx)) % 150; k < 2 {
		// the history plays in front of a big file: more than a thousand later records, or a line beyond 64 KiB
		extra := manyRecordsText(r, r.PickInt(1001, 1100))
		if k == 1 {
			extra = longLineText(r, r.PickInt(65536, 70000))
		}
		if x, ok := withAppended(d, extra); ok {
			d = x
		}
	}
	file := e.Dir + "/c04.klg"
	if err := os.WriteFile(file, []byte(d.Text), 0644); err != nil {
		panic(err)
	}
	model, perr := readBack(d.Text)
	if perr != "" || ref.DiffDocs(d.Doc, model, true) != "" {
		e.Inconclusive("harness: initial file not read back as generated")
		return
	}
	viaCLI := idx%12 == 3
	viaBin := idx%40 == 7 && e.KlogBin != ""
	// 1 in 10 histories address the file through a bookmark (@work) or through the default bookmark (no file argument at all)
	fileArg := file
	if idx%10 == 1 && !viaBin {
		_ = os.MkdirAll(e.Dir+"/cfg", 0755)
		bm := fmt.Sprintf(`[{"name":"default","path":%q},{"name":"work","path":%q}]`, file, file)
		if err := os.WriteFile(e.Dir+"/cfg/bookmarks.json", []byte(bm), 0644); err != nil {
			panic(err)
		}
		fileArg = r.Pick("@work", "", "@default")
		e.Count("histories_addressing_the_file_through_a_bookmark", 1)
	}
	var steps []histStep
	w := func() map[string]any { return map[string]any{"initial_file": d.Text, "steps": steps, "file_now": readFile(file)} }
	nSteps := r.Range(4, 30)
	if e.Quick() {
		nSteps = r.Range(4, 18)
	}
	accepted, rejected := 0, 0
	kinds := map[string]bool{}
	createdDates := map[ref.Date]bool{}
	hitCreated := false
	base := genEnv(r, today)
	for s := 0; s < nSteps; s++ {
		env := base
		env.Minute, env.Second = r.Intn(1440), r.PickInt(0, 30, 59)
		if r.Chance(1, 10) {
			env.Today = env.Today.Plus(1) // the next day
			base.Today = env.Today
		}
		dstEdge := obs.IsDSTDate(env.Today) && r.Chance(2, 3)
		if dstEdge {
			env.Minute = obs.NearMidnight(r.Intn(1440)) // on a day of a clock change, where "24 hours ago" and "yesterday" part ways
		}
		cmd := genLikelyCommand(r, model, env, !viaBin)
		if dstEdge && cmd.Kind != "pause" && cmd.Date == nil && cmd.DateFlag == "" && r.Chance(1, 2) {
			cmd.DateFlag = r.Pick("yesterday", "tomorrow")
			e.Count("commands_with_yesterday_or_tomorrow_near_midnight_of_a_clock_change", 1)
		}
		if s == 0 && pauseFirst && !viaBin {
			cmd = MCmd{Kind: "pause", Extend: true, Ticks: []int{0, 61, 200}}
			env.Today, env.Minute = today, r.Range(10, 1300)
		}
		out := applyModel(model, cmd, env)
		before := readFile(file)
		var res MResult
		if viaBin {
			res = c04RunBinary(e, cmd, env, file)
		} else {
			res = runMutating(e, cmd, env, fileArg, viaCLI)
		}
		after := readFile(file)
		st := histStep{Cmd: cmd.String(), Clock: env.Clock().Format("2006-01-02T15:04:05"), Config: strings.ReplaceAll(env.ConfigFile(), "\n", "; ")}
		st.Klog = map[bool]string{true: "ok", false: "failed: " + trunc(res.ErrText, 160)}[res.OK]
		switch {
		case out.Undecided != "":
			st.Model = "undecided: " + out.Undecided
		case out.OK:
			st.Model = "ok"
		default:
			st.Model = "reject: " + out.Why
		}
		steps = append(steps, st)
		if s == 0 && pauseFirst && !viaBin {
			e.Count("histories_starting_with_pause_extend_"+st.Model[:2]+"_"+st.Klog[:2], 1)
		}
		if res.Panic != nil {
			e.Violation("command-panic: "+res.Panic.Site(), fmt.Sprintf("step %d `klog %s` panicked: %s", s, cmd.String(), res.Panic.Value), w())
			return
		}
		e.Count("commands", 1)
		if out.Undecided != "" || (res.Rejected && !viaCLI) {
			// not judged; continue from whatever the file is now
			e.Count("commands_not_judged", 1)
			m2, perr := readBack(after)
			if perr != "" {
				e.Violation("file-invalid-after-command", fmt.Sprintf("step %d `klog %s`: the file is not valid afterwards (%s)", s, cmd.String(), perr), w())
				return
			}
			model = m2
			continue
		}
		if out.OK != res.OK {
			if viaCLI && res.Rejected && !out.OK {
				// rejected by the argument decoder instead of the command: same outcome
			} else {
				e.Violation("command-outcome-differs-from-model: "+cmd.Kind, fmt.Sprintf("step %d `klog %s` (clock %s): klog %s, the model says %s", s, cmd.String(), st.Clock, st.Klog, st.Model), w())
				return
			}
		}
		if !out.OK {
			rejected++
			if after != before {
				e.Violation("rejected-command-changes-file", fmt.Sprintf("step %d `klog %s` failed but the file changed", s, cmd.String()), w())
				return
			}
			continue
		}
		got, perr := readBack(after)
		if perr != "" {
			e.Violation("file-invalid-after-command", fmt.Sprintf("step %d `klog %s` succeeded but the file is not valid afterwards (%s)", s, cmd.String(), perr), w())
			return
		}
		if diff := compareWithModel(out, got, cmd); diff != "" {
			e.Violation("effect-differs-from-model: "+cmd.Kind, fmt.Sprintf("step %d `klog %s` (clock %s, %s): after re-reading the file: %s", s, cmd.String(), st.Clock, st.Config, diff), w())
			return
		}
		accepted++
		kinds[cmd.Kind] = true
		if out.Rec >= 0 && out.Rec < len(got.Recs) {
			dd := got.Recs[out.Rec].Date
			if !out.NewRecord && createdDates[dd] {
				hitCreated = true
			}
			if out.NewRecord {
				createdDates[dd] = true
			}
		}
		if cmd.Kind == "pause" {
			e.Count("pause_loops", 1)
			e.Count("pause_ticks", int64(len(cmd.Ticks)))
		}
		model = got
	}
	e.Count("histories", 1)
	e.Count("commands_accepted", int64(accepted))
	e.Count("commands_rejected", int64(rejected))
	if viaCLI {
		e.Count("histories_via_full_cli", 1)
	}
	if viaBin {
		e.Count("histories_as_real_processes", 1)
	}
	if accepted >= 3 && len(kinds) >= 3 && rejected >= 1 && hitCreated {
		var sb strings.Builder
		for _, s := range steps {
			sb.WriteString(s.Cmd + "|")
		}
		e.Nontrivial(core.Hash64("c04", d.Text, sb.String()))
	}
	if e.WantSample() && accepted >= 3 && len(steps) <= 8 {
		e.Sample(map[string]any{"initial_file": d.Text, "steps": steps, "final_file": readFile(file)})
	}
}

// c04RunBinary runs one (non-pause) command as a real process with a pinned clock.
func c04RunBinary(e *core.Env, c MCmd, env MEnv, file string) MResult {
	cfg := e.Dir + "/bincfg"
	_ = os.MkdirAll(cfg, 0755)
	_ = os.WriteFile(cfg+"/config.ini", []byte(env.ConfigFile()), 0644)
	clock := env.Clock()
	args := append(c.Args(), "--no-warn", file)
	b := obs.RunBin(obs.BinEnv{Bin: e.KlogBin, ConfigDir: cfg, Clock: &clock, NoColor: true}, args...)
	var res MResult
	if b.Err != nil {
		res.ErrText = "cannot run binary: " + b.Err.Error()
		res.Rejected = true
		return res
	}
	if obs.LooksLikeGoCrash(b.Stdout + b.Stderr) {
		res.Panic = &core.PanicInfo{Value: firstPanicLine(b.Stderr + b.Stdout), Stack: b.Stderr + b.Stdout}
		return res
	}
	res.Code, res.Out, res.ErrText = b.Code, b.Stdout, trunc(b.Stdout, 200)
	res.OK = b.Code == 0
	if strings.Contains(b.Stdout, "Invocation error") {
		res.Rejected = true
	}
	return res
}
