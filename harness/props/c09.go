package props

import (
	"fmt"
	"strings"

	"github.com/jotaen/klog/klog/app"
	"github.com/jotaen/klog/klog/app/cli"
	"github.com/jotaen/klog/klog/app/cli/util"
	"github.com/jotaen/klog/klog/parser"
	"verifharness/core"
	"verifharness/gen"
	"verifharness/obs"
	"verifharness/ref"
)

// C09 — printing a file yields an equivalent canonical file (round trip, fixed point).

func init() {
	core.Register(&core.Prop{
		ID:    "C09",
		Level: "exploration",
		Rule: "generated valid documents in every admissible formatting (2/3/4 spaces/tab, LF/CRLF/mixed, blank-line runs, no final newline) with every literal spelling (08:00, 12:05am, <24:00, 24:00, +0m, -0h, 90m, 1h0m, ???, one-sided dash spacing), " +
			"summaries with leading/trailing blanks, tabs, entry/date/should-total look-alikes and multi-line summaries with extra indentation. P1 = output of `klog print --no-style --no-warn`. oracle: P1 is accepted; parse(P1) equals the generating records incl. notation facts; " +
			"print(P1) == P1; P1 contains no CR, records are separated by exactly one empty line, entries are indented by four spaces (continuation lines by eight); P1 equals the reference model's canonical rendering line by line " +
			"(headline should-totals compared by value). 1 in 25 cases through the full CLI under PRNG user preferences (time_convention, date_format, … must not influence print); 1 in 60 cases: `klog print | klog print` through the real binary (stdin; the only path on which the real stdout sink is exercised). non-trivial & distinct = documents with >=2 records, a non-canonical layout and >=1 non-canonical literal spelling or blank-edged summary, by hash",
		Assumptions: []string{"--no-warn is passed: warnings are printed to stdout after the records and are not part of the printed file"},
		Planned:     func(tier string, seed uint64) int64 { return map[string]int64{"quick": 30000, "thorough": 1500000}[tier] },
		Run:         runC09,
	})
}

func printPlain(e *core.Env, file string, cpus int) (string, *core.PanicInfo, app.Error) {
	ctx, _, err := obs.NewCtx(obs.CtxOpts{ConfigDir: e.Dir + "/cfg", Cpus: cpus, Theme: "dark", Clock: obs.ClockAt(ref.Date{Y: 2024, M: 3, D: 15}, 600, 0)})
	if err != nil {
		panic("harness: " + err.Error())
	}
	var aerr app.Error
	pi := core.Guard(func() {
		aerr = (&cli.Print{NoStyleArgs: util.NoStyleArgs{NoStyle: true}, WarnArgs: util.WarnArgs{NoWarn: true},
			InputFilesArgs: util.InputFilesArgs{File: []app.FileOrBookmarkName{app.FileOrBookmarkName(file)}}}).Run(ctx)
	})
	return ctx.Out.String(), pi, aerr
}

func runC09(e *core.Env) {
	total := int64(e.N(30000, 1500000))
	for i := int64(0); i < total; i++ {
		if !e.Mine(i) {
			continue
		}
		r := core.NewRand(e.Seed, 9, uint64(i))
		d := gen.Document(r, gen.Opts{MaxRecs: 6, MinRecs: 1, MaxEntries: 6, Unicode: r.Bool(), Hostile: r.Chance(2, 3), OpenRanges: 1, Tags: r.Intn(3), TrailingBlank: r.Chance(2, 3),
			LookAlikes: r.Chance(2, 3), JSONHostile: r.Chance(1, 6), MaxHours: r.PickInt(30, 500)})
		switch core.Hash64("c09-size", fmt.Sprint(e.Seed, i)) % 1500 {
		case 0, 1, 2: // more than a thousand records
			if x, ok := withAppended(d, manyRecordsText(r, r.PickInt(1001, 1500, 2300))); ok {
				d = x
			}
		case 3, 4, 5: // a line beyond 64 KiB
			if x, ok := withAppended(d, longLineText(r, r.PickInt(65536, 70000, 140000))); ok {
				d = x
			}
		}
		e.Begin(i, []byte(d.Text))
		c09Check(e, r, i, d)
		e.End(i)
	}
}

func c09Check(e *core.Env, r *core.Rand, idx int64, d *gen.Out) {
	w := map[string]any{"text": d.Text}
	f := writeFile(e.Dir, "c09.klg", d.Text)
	p1, pi, aerr := printPlain(e, f, r.PickInt(1, 1, 4))
	if pi != nil {
		e.Violation("print-panic: "+pi.Site(), pi.Value, w)
		return
	}
	if aerr != nil {
		e.Violation("print-fails-on-valid-file", "klog print failed on a valid file: "+aerr.Error()+" / "+aerr.Details(), w)
		return
	}
	w["printed"] = p1
	if idx%25 == 3 {
		// through the full CLI, under user preferences that must not influence what `print` shows
		cfg := r.Pick("", "time_convention = 12h\n", "date_format = YYYY/MM/DD\n", "time_convention = 24h\ndate_format = YYYY-MM-DD\ndefault_rounding = 15m\n", "default_should_total = 8h!\nno_warnings = MORE_THAN_24H\n")
		w["config"] = cfg
		if !cliAgrees(e, w, []string{"print", "--no-style", "--no-warn", f}, 1, "dark", cfg, obs.ClockAt(ref.Date{Y: 2024, M: 3, D: 15}, 600, 0), p1, false) {
			return
		}
	}
	// (a) accepted, (b) same records incl. notation
	rs, _, errs := parser.NewSerialParser().Parse(p1)
	if errs != nil {
		ei := obs.ErrorsOf(errs)
		e.Violation("printed-output-not-a-valid-file", fmt.Sprintf("the printed output is rejected by the parser (line %d: %s)\n%s", ei[0].Line, ei[0].Title, trunc(p1, 1200)), w)
		return
	}
	got := obs.DocOf(rs)
	if diff := ref.DiffDocs(d.Doc, got, true); diff != "" {
		e.Violation("printed-output-denotes-different-records", "parse(print(file)) differs from the file's records: "+diff, w)
	}
	// (c) fixed point
	f2 := writeFile(e.Dir, "c09b.klg", p1)
	p2, pi2, aerr2 := printPlain(e, f2, 1)
	if pi2 != nil || aerr2 != nil {
		e.Violation("print-of-printed-output-fails", "printing the printed output failed", w)
	} else if p2 != p1 {
		e.Violation("print-not-a-fixed-point", fmt.Sprintf("printing the printed output changes it:\nfirst:\n%q\nsecond:\n%q", trunc(p1, 900), trunc(p2, 900)), w)
	}
	// (d) canonical layout
	if strings.Contains(p1, "\r") {
		e.Violation("printed-output-layout", "the printed output contains a carriage return", w)
	}
	body := strings.TrimPrefix(p1, "\n")
	if !strings.HasSuffix(body, "\n\n") && len(d.Doc.Recs) > 0 {
		// klog ends the output with an empty line; the file content itself must end in a newline
	}
	plines := strings.Split(strings.TrimSuffix(body, "\n"), "\n")
	want := strings.Split(d.Doc.Canonical(), "\n")
	// both end with "" after the final newline
	if len(plines) > 0 && plines[len(plines)-1] == "" && len(want) > 0 && want[len(want)-1] == "" {
		plines, want = plines[:len(plines)-1], want[:len(want)-1]
	}
	if len(plines) != len(want) {
		e.Violation("printed-output-not-canonical", fmt.Sprintf("printed output has %d lines, the canonical rendering %d:\n%s\n--- canonical ---\n%s", len(plines), len(want), trunc(body, 900), trunc(d.Doc.Canonical(), 900)), w)
	} else {
		for k := range want {
			if plines[k] == want[k] {
				continue
			}
			// headlines: compare the should-total by value
			gr, gv, _ := parseHeadlineForC09(plines[k])
			wr, wv, _ := parseHeadlineForC09(want[k])
			if gv && wv && gr.Date == wr.Date && gr.Dashes == wr.Dashes && gr.ShouldMins() == wr.ShouldMins() {
				continue
			}
			e.Violation("printed-output-not-canonical", fmt.Sprintf("line %d of the printed output is %q, canonical is %q", k+1, plines[k], want[k]), w)
			break
		}
	}
	nonCanon := d.Feat["crlf"] || d.Feat["mixed_eol"] || d.Feat["ws_only_lines"] || d.Feat["multi_blank_separator"] || d.Feat["no_final_newline"]
	if len(d.Doc.Recs) >= 2 && nonCanon && (d.Feat["h24_00"] || d.Feat["trailing_blanks"] || d.Feat["h12"] || d.Feat["shifted"]) {
		e.Nontrivial(core.Hash64("c09", d.Text))
	}
	e.Count("documents", 1)
	if e.WantSample() && len(d.Text) < 350 && nonCanon {
		e.Sample(map[string]any{"file": d.Text, "printed": p1})
	}
	if (idx%60 == 11 || len(d.Text) > 60000) && e.KlogBin != "" { // (every oversized document also goes through the real pipe)
		b1 := obs.RunBin(obs.BinEnv{Bin: e.KlogBin, ConfigDir: e.Dir + "/bincfg", Stdin: []byte(d.Text)}, "print", "--no-style", "--no-warn")
		if b1.Err != nil {
			e.Inconclusive("could not run the klog binary: " + b1.Err.Error())
			return
		}
		if strings.Contains(d.Text, "\x00") {
			return
		}
		b2 := obs.RunBin(obs.BinEnv{Bin: e.KlogBin, ConfigDir: e.Dir + "/bincfg", Stdin: []byte(b1.Stdout)}, "print", "--no-style", "--no-warn")
		if b1.Code != 0 || b2.Code != 0 || b1.Stdout != p1 || b2.Stdout != b1.Stdout {
			e.Violation("binary-print-pipe", fmt.Sprintf("`klog print | klog print` through the real binary: exit %d/%d, first output equals in-process output: %v, second equals first: %v", b1.Code, b2.Code, b1.Stdout == p1, b2.Stdout == b1.Stdout), w)
		}
		e.Count("binary_pipes", 1)
	}
}

func parseHeadlineForC09(line string) (ref.Rec, bool, string) {
	rec := ref.Recognise(line + "\n")
	if rec.Verdict == ref.Conforming && len(rec.Doc.Recs) == 1 && len(rec.Doc.Recs[0].Summary) == 0 && len(rec.Doc.Recs[0].Entries) == 0 {
		return rec.Doc.Recs[0], true, ""
	}
	return ref.Rec{}, false, rec.Rule
}
