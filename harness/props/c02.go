package props

import (
	"fmt"
	"os"
	"strconv"
	"strings"

	"github.com/jotaen/klog/klog/app/cli"
	"github.com/jotaen/klog/klog/app/cli/util"
	"verifharness/core"
	"verifharness/gen"
	"verifharness/obs"
	"verifharness/ref"
)

// C02 — total, should-total and diff follow the specification's evaluation rules.

func init() {
	core.Register(&core.Prop{
		ID:    "C02",
		Level: "exploration",
		Rule: "generated valid files biased to evaluation corners (overlapping ranges, <a - b> spanning three days, 24:00 / <24:00, negative, zero and unnormalised durations, duplicate dates, negative/zero/missing should-totals, 0-1 open range per record, durations up to 10^6 h). " +
			"per file: `klog total --diff` (duration text and --decimal), `klog json` (per-record and per-entry minutes, total = sum of entries, diff = total - should, range = end - start), `klog print --with-totals` (left column); " +
			"with --now at a virtual clock drawn from {open range start -1/0/+1 min, 00:00, 23:59, random} with the record dated today / yesterday / two days ago / tomorrow: exactly now - start is added for today's and yesterday's records, any other open range or a start after now must make the command fail with no total printed. " +
			"expected numbers come from the reference evaluator over the generating model. non-trivial & distinct = files whose total involves >=1 shifted range and >=1 negative duration, or --now cases that actually close a range, by hash",
		Planned: func(tier string, seed uint64) int64 { return map[string]int64{"quick": 25000, "thorough": 700000}[tier] },
		Run:     runC02,
	})
}

func runC02(e *core.Env) {
	total := int64(e.N(25000, 700000))
	for i := int64(0); i < total; i++ {
		if !e.Mine(i) {
			continue
		}
		r := core.NewRand(e.Seed, 2, uint64(i))
		today := ref.Date{Y: r.PickInt(2024, 2024, 1999, 2100, 4, 9998), M: r.Range(1, 12), D: 1}
		today.D = r.Range(1, ref.DaysInMonth(today.Y, today.M))
		if r.Chance(1, 10) {
			today = obs.DSTDates[r.Intn(len(obs.DSTDates))]
		}
		nowCase := i%4 == 0
		o := gen.Opts{MaxRecs: 6, MinRecs: 1, MaxEntries: 6, Hostile: r.Chance(1, 3), OpenRanges: 1, Tags: r.Intn(2), MaxHours: r.PickInt(30, 30, 1000000, 40000000, 1<<36), Unicode: r.Chance(1, 4), LookAlikes: r.Chance(1, 2), TrailingBlank: r.Chance(1, 3)}
		if nowCase {
			o.Near, o.NearSpread = &today, 2
		}
		d := gen.Document(r, o)
		switch core.Hash64("c02-size", fmt.Sprint(e.Seed, i)) % 500 {
		case 0: // more than a thousand records behind the generated ones
			if x, ok := withAppended(d, manyRecordsText(r, r.PickInt(1001, 1300))); ok {
				d = x
			}
		case 1: // a line beyond 64 KiB
			if x, ok := withAppended(d, longLineText(r, r.PickInt(65536, 70000))); ok {
				d = x
			}
		}
		e.Begin(i, []byte(d.Text))
		c02Check(e, r, d, today, nowCase)
		e.End(i)
	}
}

func c02Check(e *core.Env, r *core.Rand, d *gen.Out, today ref.Date, nowCase bool) {
	f := writeFile(e.Dir, "c02.klg", d.Text)
	doc := d.Doc
	w := map[string]any{"text": d.Text}
	// clock
	minute := r.Intn(1440)
	if nowCase {
		var starts []int
		for i := range doc.Recs {
			if oi := doc.Recs[i].OpenIndex(); oi >= 0 {
				starts = append(starts, doc.Recs[i].Entries[oi].Start.Off)
			}
		}
		switch r.Intn(5) {
		case 0:
			minute = 0
		case 1:
			minute = 1439
		case 2, 3:
			if len(starts) > 0 {
				s := starts[r.Intn(len(starts))] + r.PickInt(-1, 0, 1, 60)
				minute = ((s % 1440) + 1440) % 1440
			}
		}
	}
	clock := obs.ClockAt(today, minute, r.PickInt(0, 59))
	w["clock"] = clock.Format("2006-01-02T15:04:05")
	cpus := r.PickInt(1, 1, 3)
	in := files(f)
	if r.Chance(1, 5) {
		if parts, ok := splitAtRecord(e, r, d, "c02"); ok {
			in = files(parts...) // the same records given as two input files
			w["input_files"] = parts
			e.Count("cases_with_two_input_files", 1)
		}
	}
	twice := false
	if len(in) == 1 && len(doc.Recs) > 0 && core.Hash64("c02-twice", d.Text)%12 == 0 {
		// the same file named twice (once by another spelling of its path): its records count twice
		second := e.Dir + "/sub/../c02.klg"
		_ = os.MkdirAll(e.Dir+"/sub", 0755)
		if core.Hash64("c02-twice-spelling", d.Text)%2 == 0 {
			second = f
		}
		in = files(f, second)
		doc = &ref.Doc{Recs: append(append([]ref.Rec{}, doc.Recs...), doc.Recs...)}
		twice = true
		w["input_files"] = []string{f, second}
		e.Count("cases_with_the_same_file_given_twice", 1)
	}
	extra := make([]int, len(doc.Recs))
	mustFail := false
	closed := false
	if nowCase {
		ex, c, ok := nowClosing(doc, today, minute)
		if !ok {
			mustFail = true
		} else {
			extra, closed = ex, c
		}
	}
	wantTotal, wantShould := doc.ShouldTotal()*0, doc.ShouldTotal()
	for i := range doc.Recs {
		wantTotal += doc.Recs[i].Total() + extra[i]
	}
	wantDiff := wantTotal - wantShould

	// settings for the commands that write (rounding, default should-total, notations) have no say in an evaluation
	cfgFile := ""
	if core.Hash64("c02-config", d.Text)%2 == 0 {
		cfgFile = "default_rounding = " + []string{"5m", "15m", "30m", "60m"}[core.Hash64("c02-config-r", d.Text)%4] + "\ndefault_should_total = 7h30m!\ndate_format = YYYY/MM/DD\ntime_convention = 12h\n"
		w["config"] = cfgFile
	}
	for _, decimal := range []bool{false, true} {
		res := runRO(e, &cli.Total{DiffArgs: util.DiffArgs{Diff: true}, NowArgs: util.NowArgs{Now: nowCase}, DecimalArgs: util.DecimalArgs{Decimal: decimal},
			WarnArgs: util.WarnArgs{NoWarn: true}, NoStyleArgs: util.NoStyleArgs{NoStyle: true}, InputFilesArgs: util.InputFilesArgs{File: in}}, cpus, "", cfgFile, clock)
		if res.Panic != nil {
			e.Violation("total-panic: "+res.Panic.Site(), res.Panic.Value, w)
			return
		}
		if mustFail {
			if res.Err == nil || strings.Contains(res.Out, "Total:") {
				e.Violation("now-uncloseable-range-not-refused", fmt.Sprintf("`klog total --now` at %s must refuse (an open range cannot be closed at this instant) but printed:\n%s", w["clock"], res.Out), w)
			}
			continue
		}
		if res.Err != nil {
			e.Violation("total-fails", fmt.Sprintf("`klog total --diff` (now=%v) failed on a valid file: %s: %s", nowCase, res.Err.Error(), res.Err.Details()), w)
			return
		}
		to, perr := parseTotalOutput(res.Out)
		if perr != nil {
			e.Violation("total-output-malformed", perr.Error(), w)
			return
		}
		var wt, ws, wd string
		if decimal {
			wt, ws, wd = strconv.Itoa(wantTotal), strconv.Itoa(wantShould), strconv.Itoa(wantDiff)
		} else {
			wt, ws, wd = ref.FormatPlainDuration(wantTotal), ref.FormatPlainDuration(wantShould)+"!", ref.FormatSignedDuration(wantDiff)
		}
		if core.Hash64("cli", d.Text)%15 == 0 && len(in) == 1 {
			args := []string{"total", "--diff", "--no-warn", "--no-style"}
			if nowCase {
				args = append(args, "--now")
			}
			if decimal {
				args = append(args, "--decimal")
			}
			if !cliAgrees(e, w, append(args, f), cpus, "", cfgFile, clock, res.Out, false) {
				return
			}
		}
		if to.Total != wt || to.Should != ws || to.Diff != wd || to.Records != len(doc.Recs) {
			e.Violation("total-wrong", fmt.Sprintf("`klog total --diff` (decimal=%v, now=%v at %s) printed Total=%s Should=%s Diff=%s in %d records; the evaluation rules give Total=%s Should=%s Diff=%s in %d records",
				decimal, nowCase, w["clock"], to.Total, to.Should, to.Diff, to.Records, wt, ws, wd, len(doc.Recs)), w)
			return
		}
	}
	if !mustFail && !twice && e.KlogBin != "" && d.Text != "" && core.Hash64("c02-stdin", d.Text)%10 == 0 && !strings.Contains(d.Text, "\x00") {
		// the whole program with the text on its standard input (`cat FILE | klog total`)
		args := []string{"total", "--diff", "--no-warn", "--no-style"}
		if nowCase {
			args = append(args, "--now")
		}
		bcfg := e.Dir + "/bincfg"
		if len(d.Text)%2 == 0 {
			bcfg = cfgWithDefaultBookmark(e) // piped text takes precedence over a default bookmark
		}
		how := "cat FILE | klog "
		if core.Hash64("c02-devstdin", d.Text)%3 == 0 {
			// the same text as a FILE argument that is not a regular file (a pipe: what `klog total <(...)` or a FIFO hands over)
			args = append(args, "/dev/stdin")
			how = "cat FILE | klog [FILE argument /dev/stdin, a pipe] "
			e.Count("cases_read_from_a_pipe_given_as_file_argument", 1)
		}
		b := obs.RunBin(obs.BinEnv{Bin: e.KlogBin, ConfigDir: bcfg, Clock: &clock, Stdin: []byte(d.Text)}, args...)
		if b.Err == nil {
			w["how"] = how + strings.Join(args, " ")
			if obs.LooksLikeGoCrash(b.Stdout+b.Stderr) || b.Code != 0 {
				e.Violation("total-fails", fmt.Sprintf("real binary, text on standard input: exit status %d\n%s", b.Code, trunc(b.Stderr+b.Stdout, 500)), w)
				return
			}
			to, perr := parseTotalOutput(b.Stdout)
			wt, ws, wd := ref.FormatPlainDuration(wantTotal), ref.FormatPlainDuration(wantShould)+"!", ref.FormatSignedDuration(wantDiff)
			if perr != nil || to.Total != wt || to.Should != ws || to.Diff != wd || to.Records != len(doc.Recs) {
				e.Violation("total-wrong", fmt.Sprintf("real binary, text on standard input (now=%v at %s): printed Total=%s Should=%s Diff=%s in %d records (parse error %v); the evaluation rules give Total=%s Should=%s Diff=%s in %d records",
					nowCase, w["clock"], to.Total, to.Should, to.Diff, to.Records, perr, wt, ws, wd, len(doc.Recs)), w)
				return
			}
			delete(w, "how")
			e.Count("cases_also_piped_into_the_binary", 1)
		}
	}
	if mustFail {
		e.Count("now_cases_refused", 1)
		e.Nontrivial(core.Hash64("c02-refuse", d.Text, fmt.Sprint(minute)))
		return
	}
	// json
	res := runRO(e, &cli.Json{NowArgs: util.NowArgs{Now: nowCase}, Pretty: r.Bool(), InputFilesArgs: util.InputFilesArgs{File: in}}, cpus, "", cfgFile, clock)
	if res.Panic != nil || res.Err != nil {
		e.Violation("json-fails", fmt.Sprintf("`klog json` failed on a valid file: panic=%v err=%v", res.Panic != nil, res.Err), w)
		return
	}
	recs, _, rnull, enull, jerr := decodeJSONEnvelope(res.Out)
	if jerr != nil || rnull || !enull {
		e.Violation("json-envelope", fmt.Sprintf("unexpected json envelope (err=%v, records null=%v, errors null=%v)", jerr, rnull, enull), w)
		return
	}
	want := make([]expectedRec, len(doc.Recs))
	for i := range doc.Recs {
		want[i] = expectedRec{Rec: &doc.Recs[i], Extra: extra[i], ClosedEnd: -1}
		if nowCase && doc.Recs[i].OpenIndex() >= 0 {
			want[i].ClosedEnd = doc.Recs[i].Entries[doc.Recs[i].OpenIndex()].Start.Off + extra[i]
		}
	}
	if diff := compareJSONRecords(recs, want, false, true); diff != "" {
		e.Violation("json-minutes-wrong", "`klog json`: "+diff, w)
		return
	}
	// print --with-totals (without --now: that flag does not exist there)
	if !nowCase {
		res := runRO(e, &cli.Print{WithTotals: true, WarnArgs: util.WarnArgs{NoWarn: true}, NoStyleArgs: util.NoStyleArgs{NoStyle: true}, InputFilesArgs: util.InputFilesArgs{File: in}}, cpus, "", "", clock)
		if res.Panic != nil || res.Err != nil {
			e.Violation("print-with-totals-fails", fmt.Sprintf("panic=%v err=%v", res.Panic != nil, res.Err), w)
			return
		}
		if diff := c02CheckWithTotals(res.Out, doc); diff != "" {
			e.Violation("print-with-totals-wrong", diff+"\n"+trunc(res.Out, 1200), w)
			return
		}
	}
	if nowCase && r.Chance(1, 2) {
		// the same file evaluated repeatedly by one process (`today --follow`): every evaluation stands on its own
		if !checkFollow(e, r, d, f, today, minute, clock.Second(), w) {
			return
		}
	}
	e.Count("files", 1)
	if nowCase && closed {
		e.Count("now_cases_closing_a_range", 1)
		e.Nontrivial(core.Hash64("c02-now", d.Text, fmt.Sprint(minute)))
	} else if d.Feat["shifted"] && d.Feat["neg_duration"] {
		e.Nontrivial(core.Hash64("c02", d.Text))
	}
	if e.WantSample() && len(d.Text) < 300 && (closed || d.Feat["shifted"]) {
		e.Sample(map[string]any{"file": d.Text, "clock": w["clock"], "now": nowCase, "expected_total_mins": wantTotal, "expected_should_mins": wantShould})
	}
}

// c02CheckWithTotals parses `print --with-totals --no-style`: every record's first line carries the record total,
// every entry's first line the entry's value.
func c02CheckWithTotals(out string, doc *ref.Doc) string {
	lines := strings.Split(strings.Trim(out, "\n"), "\n")
	li := 0
	next := func() (string, string, bool) {
		for li < len(lines) {
			l := lines[li]
			li++
			k := strings.Index(l, "  |  ")
			if k < 0 {
				if strings.TrimSpace(l) == "" {
					continue
				}
				return "", l, false
			}
			return strings.TrimSpace(l[:k]), l[k+5:], true
		}
		return "", "", false
	}
	for ri := range doc.Recs {
		rec := &doc.Recs[ri]
		col, text, ok := next()
		if !ok {
			return fmt.Sprintf("record #%d: headline line missing (%q)", ri, text)
		}
		if col != ref.FormatPlainDuration(rec.Total()) {
			return fmt.Sprintf("record #%d (%s): left column shows %q, the record's total is %q", ri, text, col, ref.FormatPlainDuration(rec.Total()))
		}
		for range rec.Summary {
			col, text, ok = next()
			if !ok || col != "" {
				return fmt.Sprintf("record #%d: summary line carries a value %q (%q)", ri, col, text)
			}
		}
		sum := 0
		for ei := range rec.Entries {
			en := &rec.Entries[ei]
			col, text, ok = next()
			if !ok {
				return fmt.Sprintf("record #%d entry #%d: line missing", ri, ei)
			}
			if col != ref.FormatPlainDuration(en.Minutes()) {
				return fmt.Sprintf("record #%d entry #%d (%q): left column shows %q, the entry counts %q", ri, ei, text, col, ref.FormatPlainDuration(en.Minutes()))
			}
			sum += en.Minutes()
			for k := 1; k < len(en.Summary); k++ {
				col, text, ok = next()
				if !ok || col != "" {
					return fmt.Sprintf("record #%d entry #%d: continuation line carries a value %q", ri, ei, col)
				}
			}
		}
		if sum != rec.Total() {
			return "harness: inconsistent model"
		}
	}
	if _, text, ok := next(); ok || text != "" {
		return "unexpected additional lines: " + text
	}
	return ""
}
