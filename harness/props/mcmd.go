package props

import (
	"os"
	"fmt"
	"strconv"
	"strings"
	"time"

	"github.com/jotaen/klog/klog"
	"github.com/jotaen/klog/klog/app"
	"github.com/jotaen/klog/klog/app/cli"
	"github.com/jotaen/klog/klog/app/cli/util"
	"github.com/jotaen/klog/klog/service"
	"verifharness/core"
	"verifharness/obs"
	"verifharness/ref"
)

// MCmd describes one mutating command in reference-side terms.
type MCmd struct {
	Kind       string    // track, start, stop, switch, pause, create
	Date       *ref.Date // --date
	DateSlash  bool      // --date typed as YYYY/MM/DD
	DateFlag   string    // "", today, yesterday, tomorrow
	Time       *ref.TimeV
	TimeText   string   // spelling of --time
	Round      int      // --round (0 = none)
	Summary    []string // --summary (nil = absent)
	Resume     bool
	ResumeNth  int
	Entry      []string // track: lines of the entry (first line starts with the value)
	Should     *int     // create --should
	ShouldText string   // create --should, raw spelling (overrides Should; CLI path only)
	RecSummary []string // create --summary
	NoTags     bool     // pause --no-tags
	Extend     bool     // pause --extend
	Warn       bool     // run with warnings enabled (klog's default) instead of --no-warn
	Ticks      []int    // pause: clock offsets in seconds (relative to the command's start) at the iterations of the loop
	ForeignEdit int     // pause: before iteration k (k >= 1) of the loop somebody else appends a valid record to the file (0 = never)
	Sabotage   int      // pause: before iteration k (k >= 2) of the loop somebody else leaves the file unparseable (0 = never)
}

// MEnv is the environment of a mutating command.
type MEnv struct {
	Today         ref.Date
	Minute        int // minute of day of the clock
	Second        int
	CfgRounding   int    // default_rounding (0 = none)
	CfgShould     *int   // default_should_total
	CfgDateFormat string // "", "YYYY-MM-DD", "YYYY/MM/DD"
	CfgTimeConv   string // "", "24h", "12h"
	Cpus          int
}

func (m MEnv) ConfigFile() string {
	var sb strings.Builder
	if m.CfgRounding > 0 {
		fmt.Fprintf(&sb, "default_rounding = %dm\n", m.CfgRounding)
	}
	if m.CfgShould != nil {
		fmt.Fprintf(&sb, "default_should_total = %s!\n", ref.FormatPlainDuration(*m.CfgShould))
	}
	if m.CfgDateFormat != "" {
		fmt.Fprintf(&sb, "date_format = %s\n", m.CfgDateFormat)
	}
	if m.CfgTimeConv != "" {
		fmt.Fprintf(&sb, "time_convention = %s\n", m.CfgTimeConv)
	}
	out := sb.String()
	if out == "" {
		return out
	}
	// equivalent spellings of the same configuration: comment and blank lines, an unrelated setting, CRLF line endings
	switch (m.Minute + m.Second + m.Today.D) % 4 {
	case 1:
		out = "# klog settings\n\n" + out + "\n# end\n"
	case 2:
		out = "editor = vi\n" + out
	case 3:
		out = strings.ReplaceAll("# written on another system\n"+out+"editor = vi\n", "\n", "\r\n")
	}
	return out
}

func (m MEnv) Clock() time.Time { return obs.ClockAt(m.Today, m.Minute, m.Second) }

func joinLines(ls []string) string { return strings.Join(ls, "\n") }

// Args renders the command line (the file argument is appended by the caller).
func (c MCmd) Args() []string {
	a := []string{c.Kind}
	if c.Kind == "bookmarks" { // `klog bookmarks set --create FILE`: the one file-writing command outside the reconciler
		a = []string{"bookmarks", "set", "--create"}
	}
	esc := func(s string) string {
		// the CLI reads a leading '-' of an entry/summary as a flag: it has to be escaped
		if strings.HasPrefix(s, "-") {
			return "\\" + s
		}
		return s
	}
	if c.Kind == "track" {
		a = append(a, esc(joinLines(c.Entry)))
	}
	if c.Date != nil {
		a = append(a, "--date", ref.FormatDate(*c.Date, !c.DateSlash))
	}
	if c.DateFlag != "" {
		a = append(a, "--"+c.DateFlag)
	}
	if c.Time != nil {
		a = append(a, "--time="+c.TimeText)
	}
	if c.Round > 0 {
		a = append(a, "--round", strconv.Itoa(c.Round)+"m")
	}
	if c.Summary != nil {
		a = append(a, "--summary="+esc(joinLines(c.Summary)))
	}
	if c.Resume {
		a = append(a, "--resume")
	}
	if c.ResumeNth != 0 {
		a = append(a, "--resume-nth="+strconv.Itoa(c.ResumeNth))
	}
	if c.Kind == "create" {
		if c.ShouldText != "" {
			a = append(a, "--should="+c.ShouldText)
		} else if c.Should != nil {
			a = append(a, "--should="+ref.FormatPlainDuration(*c.Should)+"!")
		}
		if c.RecSummary != nil {
			a = append(a, "--summary="+joinLines(c.RecSummary))
		}
	}
	if c.NoTags {
		a = append(a, "--no-tags")
	}
	if c.Extend {
		a = append(a, "--extend")
	}
	return a
}

func (c MCmd) String() string {
	s := strings.Join(c.Args(), " ")
	if c.Kind == "pause" {
		s += fmt.Sprintf(" ticks=%v", c.Ticks)
		if c.ForeignEdit > 0 {
			s += fmt.Sprintf(" foreign-edit-before-iteration=%d", c.ForeignEdit)
		}
	}
	return s
}

// build constructs the command struct the way kong's decoders would. decodeErr != "" means the CLI would reject the arguments.
func (c MCmd) build(file string) (cmd runner, decodeErr string) {
	out := util.OutputFileArgs{File: app.FileOrBookmarkName(file)}
	at := util.AtDateArgs{Today: c.DateFlag == "today", Yesterday: c.DateFlag == "yesterday", Tomorrow: c.DateFlag == "tomorrow"}
	if c.Date != nil {
		at.Date = kdate(c.Date.Y, c.Date.M, c.Date.D)
		if c.DateSlash {
			if dd, derr := klog.NewDateFromString(ref.FormatDate(*c.Date, false)); derr == nil {
				at.Date = dd
			}
		}
	}
	att := util.AtDateAndTimeArgs{AtDateArgs: at}
	if c.Time != nil {
		t, err := klog.NewTimeFromString(c.TimeText)
		if err != nil {
			return nil, "invalid time"
		}
		att.Time = t
	}
	if c.Round > 0 {
		rd, err := service.NewRounding(c.Round)
		if err != nil {
			return nil, "invalid rounding"
		}
		att.Round = rd
	}
	entrySummary := func(ls []string) (klog.EntrySummary, string) {
		if ls == nil {
			return nil, ""
		}
		if joinLines(ls) == "" {
			return nil, "empty value"
		}
		s, err := klog.NewEntrySummary(append([]string(nil), ls...)...) // a copy: klog's pause modifies the summary it is given in place
		if err != nil {
			return nil, "blank line in entry summary"
		}
		return s, ""
	}
	sum, derr := entrySummary(c.Summary)
	if derr != "" {
		return nil, derr
	}
	sa := util.SummaryArgs{SummaryText: sum, Resume: c.Resume, ResumeNth: c.ResumeNth}
	nw := util.WarnArgs{NoWarn: !c.Warn}
	switch c.Kind {
	case "track":
		es, derr := entrySummary(c.Entry)
		if derr != "" {
			return nil, derr
		}
		return &cli.Track{Entry: es, AtDateArgs: at, OutputFileArgs: out, WarnArgs: nw}, ""
	case "start":
		return &cli.Start{SummaryArgs: sa, AtDateAndTimeArgs: att, OutputFileArgs: out, WarnArgs: nw}, ""
	case "stop":
		return &cli.Stop{Summary: sum, AtDateAndTimeArgs: att, OutputFileArgs: out, WarnArgs: nw}, ""
	case "switch":
		return &cli.Switch{SummaryArgs: sa, AtDateAndTimeArgs: att, OutputFileArgs: out, WarnArgs: nw}, ""
	case "pause":
		return &cli.Pause{Summary: sum, NoAppendTags: c.NoTags, Extend: c.Extend, OutputFileArgs: out, WarnArgs: nw}, ""
	case "create":
		cr := &cli.Create{AtDateArgs: at, OutputFileArgs: out, WarnArgs: nw}
		if c.Should != nil {
			cr.ShouldTotal = klog.NewShouldTotal(0, *c.Should)
		}
		if c.RecSummary != nil {
			rs, err := klog.NewRecordSummary(c.RecSummary...)
			if err != nil {
				return nil, "invalid record summary"
			}
			cr.Summary = rs
		}
		return cr, ""
	}
	panic("harness: unknown command kind " + c.Kind)
}

// MResult is the observation of one mutating command.
type MResult struct {
	OK       bool // command reported success
	ErrText  string
	Code     int
	Out      string
	Panic    *core.PanicInfo
	Rejected bool // arguments rejected before the command ran (decoder level)
	Writes   int  // number of ReconcileFile calls that returned success (struct path only)
	// ForeignEdit: the file as klog had left it when the other party came, and as the other party left it
	ForeignBefore, ForeignAfter string
	ForeignDone                 bool
}

// reconcileSpy counts successful writes.
type reconcileSpy struct {
	*obs.Ctx
}

// runMutating executes the command against the real file. viaCLI: full CLI path (kong decoding) instead of the struct path.
func runMutating(e *core.Env, c MCmd, env MEnv, file string, viaCLI bool) MResult {
	var res MResult
	clock := env.Clock()
	// the pause loop is driven through hook H2: iteration k of the loop (announced by the cursor-reset print) runs at clock + Ticks[k-1]
	iter := 0
	onPrint := func(cx *obs.Ctx, s string) {
		if c.Kind == "pause" && s == "\033[H\033[J" {
			if c.Sabotage >= 2 && iter == c.Sabotage-1 && file != "" {
				_ = os.WriteFile(file, []byte("this is no longer a klog file\n    (somebody is editing it)\n"), 0644)
			}
			if c.ForeignEdit >= 1 && iter == c.ForeignEdit-1 && file != "" {
				if b, rerr := os.ReadFile(file); rerr == nil {
					t := string(b)
					res.ForeignBefore = t
					if t != "" && !strings.HasSuffix(t, "\n") {
						t += "\n"
					}
					other := env.Today.Plus(-400)
					if env.Today.Days()-ref.MinDay < 500 {
						other = env.Today.Plus(400)
					}
					t += "\n" + ref.FormatDate(other, true) + "\n    1h added by somebody else while klog pause was running\n"
					if os.WriteFile(file, []byte(t), 0644) == nil {
						res.ForeignAfter, res.ForeignDone = t, true
					}
				}
			}
			if iter < len(c.Ticks) {
				cx.Clock = clock.Add(time.Duration(c.Ticks[iter]) * time.Second)
			}
			iter++
		}
	}
	if c.Kind == "pause" {
		util.SetVerifRepeatHooks(&util.VerifRepeatHooks{Interval: time.Microsecond, AfterIteration: func(counter int64) bool { return int(counter) >= len(c.Ticks) }})
		defer util.SetVerifRepeatHooks(nil)
	}
	if viaCLI {
		args := c.Args()
		if !c.Warn && c.Kind != "bookmarks" {
			args = append(args, "--no-warn")
		}
		if file != "" {
			args = append(args, file)
		}
		cres := obs.RunCLI(obs.CLIEnv{ConfigDir: e.Dir + "/cfg", Cpus: env.Cpus, Theme: "no_colour", ConfigFile: env.ConfigFile(), Clock: clock, OnPrint: onPrint}, args...)
		res.Panic, res.Code, res.Out, res.ErrText = cres.Panic, cres.Code, cres.Out, cres.Err
		res.OK = cres.Panic == nil && cres.Code == 0 && cres.Err == ""
		if strings.HasPrefix(cres.Err, "Invocation error") {
			res.Rejected = true
		}
		return res
	}
	cmd, derr := c.build(file)
	if derr != "" {
		res.Rejected, res.ErrText, res.Code = true, derr, 1
		return res
	}
	ctx, _, err := obs.NewCtx(obs.CtxOpts{ConfigDir: e.Dir + "/cfg", Cpus: env.Cpus, Theme: "no_colour", ConfigFile: env.ConfigFile(), Clock: clock})
	if err != nil {
		panic("harness: " + err.Error())
	}
	ctx.OnPrint = func(s string) { onPrint(ctx, s) }
	var aerr app.Error
	res.Panic = core.Guard(func() { aerr = cmd.Run(ctx) })
	res.Out = ctx.Out.String()
	if aerr != nil {
		res.ErrText = aerr.Error() + ": " + aerr.Details()
		res.Code = aerr.Code().ToInt()
	}
	res.OK = res.Panic == nil && aerr == nil
	return res
}
