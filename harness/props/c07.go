package props

import (
	"fmt"
	"strings"
	"sync"
	"time"

	"github.com/jotaen/klog/klog/parser"
	"github.com/jotaen/klog/klog/parser/engine"
	"verifharness/core"
	"verifharness/gen"
	"verifharness/obs"
	"verifharness/ref"
)

// C07 — the parallel parser is indistinguishable from the serial parser.

var c07HandTexts = []string{
	"2020-01-01\n    1h\n\n2020-01-02\n    2h\n",
	"2020-01-01\r\n    1h\r\n\r\n2020-01-02\r\n    2h\r\n",
	"2020-01-01\r\n\t1h\r\n\r\n\t\r\n2020-01-02\r\n\t2h\r\n \r\n2020-01-03\r\n",
	"\n\n  \n2020-01-01\n  1h  \n  2h\n \t \n\n2020-01-02\n  3h\n\n\n",
	"2020-01-01\n    1h  \n    2h\n\n2000-01-02\n    3h\n\n2000-01-03\n    4h\n",
	"2020-01-01\nsummary 喜左衛門 😀\n    8:00 - 9:00 読む\n\n2020-01-02\n    1h é\n",
	"2020-01-01\n    1h\n\nfoo\n\n2020-01-03\n    x\n",
	"2020-01-01\n 1h\n2020-01-02\n\n2020-13-01\n\n\n2020-01-04\n    25:00-26:00\n",
	"2020-01-01\n    1h foo\xff",
	"2020-01-01\n    1h \xe5\x96 bar\n\n2020-01-02\n    2h\xc3",
	"\xff\n\n\xfe\n2020-01-01\n",
	"2020-01-01\r\r\n    1h\r\n\r2020-01-02\n",
	"2020-01-01\n    8:00 - ?\n    9:00 - ?\n\n2020-01-02\n    1h\n         \n    2h\n",
	"a\n\nb\n\nc\n\nd\n\ne\n\nf\n\ng\n\nh\n",
	"2020-01-01\n\n2020-01-02\n\n2020-01-03\n\n2020-01-04\n\n2020-01-05\n\n2020-01-06\n\n2020-01-07\n",
	"2020-01-01",
	"\n",
	"",
	" \t \n\t\n",
	// lines made of a multi-byte blank character next to empty lines, between records
	"2020-01-01\n    1h\n\n\u3000\n2020-01-02\n    2h\n", "2020-01-01\nsummary of the day\n    1h\n\n\u3000\n\n2020-01-02\n", "2020-01-01\n    1h first\n\n2020-01-02\n    2h\n\n\u00a0\n2020-01-03\n    3h\n", "2020-01-01\n    1h\n\n\u2003\u2003\n",
	// nothing visible, but not blank for klog: other white-space characters
	"\f", "\v\n", "\r", "\u00a0", "\u3000\n\n", " \u00a0 \n", "\n\u2028\n", "\u0085", "\t\r\t", "\u200b",
	"2020-01-01\n    1h\n        more\n        lines\n    2h x\n\n\n\n2020-01-02 (8h!)\n    <23:00 - 1:00>\n",
}

func init() {
	// two records, an empty line, a line made of one three-byte blank character, another record - with paddings that move
	// every chunk boundary across the bytes of that character
	for pad := 0; pad < 28; pad++ {
		c07HandTexts = append(c07HandTexts, "2020-01-01\n    1h "+strings.Repeat("x", pad)+"\n\n2020-01-02\n    2h\n\n\u3000\n2020-01-03\n    3h\n")
	}
}

func c07SmallText(r *core.Rand, k int) (string, string) {
	if k < len(c07HandTexts) {
		return c07HandTexts[k], "hand"
	}
	o := gen.Opts{MaxRecs: 4, MinRecs: 1, MaxEntries: 2, Unicode: r.Chance(1, 2), Hostile: true, OpenRanges: 1, Short: true, TrailingBlank: r.Chance(1, 2), Tags: r.Intn(2)}
	d := gen.Document(r, o)
	switch r.Intn(5) {
	case 4:
		// an invisible character (byte order mark, zero-width space) in front of some line: "the first line of the file" is
		// a different line for a worker than for the whole text
		ls := ref.SplitLines(d.Text)
		if len(ls) > 0 {
			k := r.Intn(len(ls))
			ls[k].Text = r.Pick("\ufeff", "\ufeff", "\u200b") + ls[k].Text
			var sb strings.Builder
			for _, l := range ls {
				sb.WriteString(l.Text + l.Ending)
			}
			return sb.String(), "invisible-prefix"
		}
	case 0:
		if m, ok := gen.Mutate(r, d); ok {
			return m.Text, "mutant"
		}
	case 1:
		// force CRLF with whitespace-only separator lines
		t := strings.ReplaceAll(strings.ReplaceAll(d.Text, "\r\n", "\n"), "\n", "\r\n")
		return t, "crlf"
	}
	return d.Text, "doc"
}

// schedule controller for hook H1
type c07Sched struct {
	gates []chan struct{}
	pos   []int // pos[batchIndex] = position in arrival order
	order []int
	mu    sync.Mutex
	log   []int
	timed bool
}

func newC07Sched(order []int) *c07Sched {
	s := &c07Sched{order: order, pos: make([]int, len(order)), gates: make([]chan struct{}, len(order))}
	for p, b := range order {
		s.pos[b] = p
	}
	for i := range s.gates {
		s.gates[i] = make(chan struct{})
	}
	close(s.gates[0])
	return s
}

func (s *c07Sched) hooks() *engine.VerifScheduleHooks {
	return &engine.VerifScheduleHooks{
		BeforeSend: func(b int) {
			if b < 0 || b >= len(s.pos) {
				return
			}
			select {
			case <-s.gates[s.pos[b]]:
			case <-time.After(10 * time.Second):
				s.mu.Lock()
				s.timed = true
				s.mu.Unlock()
			}
		},
		OnCollect: func(b int) {
			s.mu.Lock()
			s.log = append(s.log, b)
			n := len(s.log)
			s.mu.Unlock()
			if n < len(s.gates) {
				// open the gate of the next position (idempotent by construction: each position is collected once)
				func() {
					defer func() { _ = recover() }()
					close(s.gates[n])
				}()
			}
		},
	}
}

func permutations(n int) [][]int {
	var out [][]int
	a := make([]int, n)
	for i := range a {
		a[i] = i
	}
	var rec func(k int)
	rec = func(k int) {
		if k == n {
			out = append(out, append([]int(nil), a...))
			return
		}
		for i := k; i < n; i++ {
			a[k], a[i] = a[i], a[k]
			rec(k + 1)
			a[k], a[i] = a[i], a[k]
		}
	}
	rec(0)
	return out
}

func c07BoundaryClass(text string, n int) []string {
	// classes of byte offsets at which splitIntoChunks would nominally cut (ceil(len/n) multiples)
	var cls []string
	if n <= 1 || len(text) == 0 {
		return cls
	}
	size := (len(text) + n - 1) / n
	for off := size; off < len(text); off += size {
		c := "inside-line"
		switch {
		case text[off] == '\n' && off > 0 && text[off-1] == '\r':
			c = "between-CR-and-LF"
		case text[off]&0xC0 == 0x80:
			c = "inside-multibyte-rune"
		case off > 0 && text[off-1] == '\n':
			c = "at-line-start"
			// blank line / block boundary?
			rest := text[off:]
			line := rest
			if i := strings.IndexByte(rest, '\n'); i >= 0 {
				line = rest[:i]
			}
			if strings.TrimRight(line, " \t\r") == "" {
				c = "on-blank-line"
			} else if off > 1 && (text[off-2] == '\n' || (off > 2 && text[off-2] == '\r' && text[off-3] == '\n')) {
				c = "at-block-boundary"
			}
		case text[off] == '\n' || text[off] == '\r':
			c = "before-line-ending"
		case (text[off] == ' ' || text[off] == '\t') && strings.TrimLeft(text[lineStart(text, off):off], " \t") == "":
			c = "inside-leading-blanks"
		case strings.TrimRight(text[off:lineEnd(text, off)], " \t\r") == "":
			c = "inside-trailing-blanks"
		}
		cls = append(cls, c)
	}
	return cls
}

func lineStart(t string, off int) int {
	i := strings.LastIndexByte(t[:off], '\n')
	return i + 1
}
func lineEnd(t string, off int) int {
	i := strings.IndexByte(t[off:], '\n')
	if i < 0 {
		return len(t)
	}
	return off + i
}

func init() {
	core.Register(&core.Prop{
		ID:    "C07",
		Level: "exploration",
		Rule: "four workloads. sweep: small texts (hand-shaped + generated documents/mutants, CRLF variants, invalid UTF-8) x EVERY worker count 1..len+2, so every byte offset is a chunk boundary for some n; " +
			"schedules: through hook H1 every arrival order of the batch results is forced (all n! orders for n<=4 quick / n<=6 thorough, sampled beyond) and the collector's log must equal the forced order; " +
			"bulk: large generated/mutated corpora incl. files with >100 errors x PRNG worker counts 2..64; commands: print/json/total/report and mutating commands under NumCpus 1,2,3,8,64 on real files. " +
			"oracle: tuple equality with the serial parser (records incl. notation, blocks with line text/ending/global index, errors with line, position, length, code, quoted text). " +
			"a separate -race build runs 16 goroutines parsing concurrently (zero race reports demanded). non-trivial & distinct = (text, n) pairs with n>=2 whose chunking cuts the text at least once, by hash",
		Assumptions: []string{"hook H1 only observes/gates the send; without a controller installed it is a no-op, so sweep/bulk/race run the unmodified scheduling"},
		Planned: func(tier string, seed uint64) int64 {
			if tier == "thorough" {
				return 4000 + 1500 + 40000 + 3000
			}
			return 320 + 120 + 1500 + 300
		},
		RaceShards: func(tier string) int { return 2 },
		RunRace:    runC07Race,
		Run:        runC07,
		// a parallel parse that does not come back while the serial one does refutes the property: the watchdog ends the
		// child, the case is replayed alone, and only a second failure to terminate counts
		HangIsViolation: true,
		Watchdog: func(tier string) time.Duration {
			if tier == "thorough" {
				return 45 * time.Minute
			}
			return 4 * time.Minute
		},
	})
}

func runC07(e *core.Env) {
	nSweep := int64(e.N(320, 4000))
	nSched := int64(e.N(120, 1500))
	nBulk := int64(e.N(1500, 40000))
	nCmd := int64(e.N(300, 3000))
	serial := parser.NewSerialParser()
	viol := func(key, msg, text string, n int, extra any) {
		e.Violation(key, msg, map[string]any{"text": text, "workers": n, "extra": extra})
	}
	for i := int64(0); i < nSweep+nSched+nBulk+nCmd; i++ {
		if !e.Mine(i) {
			continue
		}
		r := core.NewRand(e.Seed, 7, uint64(i))
		switch {
		case i < nSweep:
			text, kind := c07SmallText(r, int(i))
			e.Begin(i, []byte(text))
			want, pi := parseWith(serial, text)
			if pi != nil {
				viol("serial-parse-panic: "+pi.Site(), "serial parser panicked: "+pi.Value, text, 0, nil)
				e.End(i)
				continue
			}
			cnt := int64(0)
			for n := 1; n <= len(text)+2; n++ {
				got, pi := parseWith(parser.NewParallelParser(n), text)
				cnt++
				if pi != nil {
					viol("parallel-parse-panic: "+pi.Site(), fmt.Sprintf("parallel parser (%d workers) panicked: %s", n, pi.Value), text, n, nil)
					continue
				}
				if d := diffTuples(want, got); d != "" {
					viol("parallel-differs-from-serial", fmt.Sprintf("%d workers: %s", n, d), text, n, nil)
				}
				for _, c := range c07BoundaryClass(text, n) {
					e.Count("boundary_"+c, 1)
				}
				if n >= 2 && len(text) > n {
					e.Nontrivial(core.Hash64("sweep", text, fmt.Sprint(n)))
				}
			}
			e.Evals(cnt)
			e.Count("sweep_texts_"+kind, 1)
			e.Count("sweep_parses", cnt)
			if e.WantSample() && len(text) < 200 && kind != "hand" {
				e.Sample(map[string]any{"workload": "sweep", "text": text, "worker_counts": fmt.Sprintf("1..%d", len(text)+2)})
			}
			e.End(i)
		case i < nSweep+nSched:
			text, _ := c07SmallText(r, int(i-nSweep)+len(c07HandTexts)/2)
			maxAll := e.N(4, 6)
			n := r.Range(2, maxAll+3)
			if r.Chance(1, 3) {
				n = r.Range(2, maxAll)
			}
			e.Begin(i, []byte(fmt.Sprintf("n=%d\n%s", n, text)))
			want, pi := parseWith(serial, text)
			if pi != nil {
				e.End(i)
				continue
			}
			var orders [][]int
			if n <= maxAll {
				orders = permutations(n)
			} else {
				id := make([]int, n)
				rev := make([]int, n)
				for k := range id {
					id[k], rev[k] = k, n-1-k
				}
				orders = append(orders, id, rev)
				for k := 0; k < 24; k++ {
					orders = append(orders, r.Perm(n))
				}
			}
			cnt := int64(0)
			for _, ord := range orders {
				s := newC07Sched(ord)
				engine.SetVerifScheduleHooks(s.hooks())
				got, pi := parseWith(parser.NewParallelParser(n), text)
				engine.SetVerifScheduleHooks(nil)
				cnt++
				if pi != nil {
					viol("parallel-parse-panic: "+pi.Site(), fmt.Sprintf("parallel parser (%d workers, order %v) panicked: %s", n, ord, pi.Value), text, n, ord)
					continue
				}
				s.mu.Lock()
				logged := append([]int(nil), s.log...)
				timed := s.timed
				s.mu.Unlock()
				if timed || fmt.Sprint(logged) != fmt.Sprint(ord) {
					e.Inconclusive("schedule could not be forced (collector log differs from the installed order)")
					continue
				}
				e.Distinct("arrival_orders", core.Hash64(fmt.Sprint(ord)))
				if d := diffTuples(want, got); d != "" {
					viol("parallel-differs-from-serial", fmt.Sprintf("%d workers, results arriving in order %v: %s", n, ord, d), text, n, ord)
				}
			}
			e.Evals(cnt)
			e.Count("forced_schedules", cnt)
			e.Nontrivial(core.Hash64("sched", text, fmt.Sprint(n)))
			if e.WantSample() && len(text) < 160 {
				e.Sample(map[string]any{"workload": "schedules", "text": text, "workers": n, "orders_forced": len(orders)})
			}
			e.End(i)
		case i < nSweep+nSched+nBulk:
			text, kind := c07BulkText(r)
			e.Begin(i, []byte(text))
			want, pi := parseWith(serial, text)
			if pi != nil {
				viol("serial-parse-panic: "+pi.Site(), "serial parser panicked: "+pi.Value, trunc(text, 4000), 0, nil)
				e.End(i)
				continue
			}
			cnt := int64(0)
			ns := []int{r.Range(2, 8), r.Range(9, 64), r.PickInt(2, 3, 4, 16)}
			if kind == "big" {
				ns = []int{2, r.PickInt(2, 3, 4), 16} // few workers: many times 64 KiB for each of them
			}
			for _, n := range ns {
				got, pi := parseWith(parser.NewParallelParser(n), text)
				cnt++
				if pi != nil {
					viol("parallel-parse-panic: "+pi.Site(), fmt.Sprintf("parallel parser (%d workers) panicked: %s", n, pi.Value), trunc(text, 4000), n, nil)
					continue
				}
				if d := diffTuples(want, got); d != "" {
					viol("parallel-differs-from-serial", fmt.Sprintf("%d workers (%s corpus, %d bytes, %d errors serial): %s", n, kind, len(text), len(want.Errs), trunc(d, 600)), trunc(text, 6000), n, nil)
				}
				e.Nontrivial(core.Hash64("bulk", text, fmt.Sprint(n)))
			}
			e.Evals(cnt)
			e.Count("bulk_"+kind, 1)
			if len(want.Errs) > 100 {
				e.Count("bulk_texts_with_more_than_100_errors", 1)
			}
			e.End(i)
		default:
			c07Commands(e, r, i)
		}
	}
}

func c07BulkText(r *core.Rand) (string, string) {
	o := gen.Opts{MaxRecs: 40, MinRecs: 5, MaxEntries: 6, Unicode: true, Hostile: true, OpenRanges: 1, Tags: 1, TrailingBlank: true, LookAlikes: true}
	if r.Chance(1, 25) {
		// a big file: several times 64 KiB per worker (one of the sizes beyond which implementations start to cut work differently)
		unit := gen.Document(r, o).Text
		if !strings.HasSuffix(unit, "\n") {
			unit += "\n"
		}
		unit += "\n"
		want := 65536*r.PickInt(3, 5, 9, 19) + r.Intn(5000)
		return strings.Repeat(unit, want/len(unit)+1), "big"
	}
	switch r.Intn(6) {
	case 0: // many erroneous records
		d := gen.Document(r, gen.Opts{MaxRecs: 2, MinRecs: 1, MaxEntries: 2, Short: true, Hostile: true})
		m, ok := gen.Mutate(r, d)
		if !ok {
			return d.Text, "doc"
		}
		unit := m.Text
		if !strings.HasSuffix(unit, "\n") {
			unit += "\n"
		}
		return strings.Repeat(unit+"\n", r.PickInt(99, 100, 101, 102, 150, 199, 200, 201, 400)), "many-errors"
	case 1: // document with several mutated regions
		d := gen.Document(r, o)
		text := d.Text
		for k := 0; k < 3; k++ {
			d2 := gen.Document(r, gen.Opts{MaxRecs: 3, MinRecs: 1, Hostile: true, Unicode: true})
			if m, ok := gen.Mutate(r, d2); ok {
				text += "\n\n" + m.Text
			}
		}
		return text, "multi-fault"
	case 2: // byte noise
		d := gen.Document(r, o)
		b := []byte(d.Text)
		for k := 0; k < 1+r.Intn(4) && len(b) > 0; k++ {
			b[r.Intn(len(b))] = byte(r.Intn(256))
		}
		return string(b), "byte-noise"
	case 3: // all CRLF with whitespace-only separators
		d := gen.Document(r, o)
		return strings.ReplaceAll(strings.ReplaceAll(d.Text, "\r\n", "\n"), "\n", "\r\n"), "crlf"
	}
	return gen.Document(r, o).Text, "doc"
}

func c07Commands(e *core.Env, r *core.Rand, i int64) {
	d := gen.Document(r, gen.Opts{MaxRecs: 12, MinRecs: 2, MaxEntries: 4, Unicode: true, Hostile: true, OpenRanges: 1, Tags: 1, NoDupDates: true, YearLo: 2000, YearHi: 2030})
	text := d.Text
	broken := false
	if r.Chance(1, 4) {
		if m, ok := gen.Mutate(r, d); ok {
			text, broken = m.Text, true
		}
	}
	e.Begin(i, []byte(text))
	defer e.End(i)
	clock := obs.ClockAt(d.Doc.Recs[0].Date, 12*60+7, 30)
	cmds := [][]string{{"print", "--no-style"}, {"json"}, {"total", "--diff"}, {"report", "--aggregate", r.Pick("d", "w", "m", "q", "y"), "--no-style"}, {"tags", "--values", "--count"}}
	mut := [][]string{{"track", "1h worked #x"}, {"start", "--summary", "go"}, {"create", "--date", "2031-05-05", "--should", "8h!"}, {"track", "--date", d.Doc.Recs[len(d.Doc.Recs)-1].Date.String(), "15:00-16:00"}}
	cfgDir := e.Dir + "/cfg"
	var ref0 []string
	cnt := int64(0)
	for ci, cpus := range []int{1, 2, 3, 8, 64} {
		var outs []string
		env := obs.CLIEnv{ConfigDir: cfgDir, Cpus: cpus, Clock: clock}
		for _, c := range cmds {
			f := writeFile(e.Dir, "in.klg", text)
			res := obs.RunCLI(env, append(append([]string{}, c...), f)...)
			cnt++
			if res.Panic != nil {
				e.Violation("command-panic: "+res.Panic.Site(), fmt.Sprintf("klog %v with %d CPUs panicked: %s", c, cpus, res.Panic.Value), map[string]any{"text": text, "cmd": c, "cpus": cpus})
			}
			outs = append(outs, fmt.Sprintf("%v => code %d\n%s\n%s", c, res.Code, res.Out, res.Err))
		}
		// several input files, a big one in front of a small one: the order of records and of errors is the order of the arguments
		for _, c := range cmds[:3] {
			big := writeFile(e.Dir, "in-big.klg", strings.Repeat(text+"\n\n", 30))
			small := writeFile(e.Dir, "in-small.klg", text)
			res := obs.RunCLI(env, append(append([]string{}, c...), big, small)...)
			cnt++
			if res.Panic != nil {
				e.Violation("command-panic: "+res.Panic.Site(), fmt.Sprintf("klog %v (two files) with %d CPUs panicked: %s", c, cpus, res.Panic.Value), map[string]any{"text": text, "cmd": c, "cpus": cpus})
			}
			outs = append(outs, fmt.Sprintf("%v BIG SMALL => code %d\n%s\n%s", c, res.Code, res.Out, res.Err))
			// ... and a first file whose last line (a record without entries) has no line ending, followed by a file that starts
			// with a headline: the files are separate texts, whatever would happen if their bytes were glued together
			head := writeFile(e.Dir, "in-unterminated.klg", strings.TrimRight(text, "\r\n \t")+"\n\n2031-07-07")
			next := writeFile(e.Dir, "in-starts-with-date.klg", "2031-07-08\n    1h next file\n")
			res = obs.RunCLI(env, append(append([]string{}, c...), head, next)...)
			cnt++
			if res.Panic != nil {
				e.Violation("command-panic: "+res.Panic.Site(), fmt.Sprintf("klog %v (unterminated file + next file) with %d CPUs panicked: %s", c, cpus, res.Panic.Value), map[string]any{"text": text, "cmd": c, "cpus": cpus})
			}
			outs = append(outs, fmt.Sprintf("%v UNTERMINATED NEXT => code %d\n%s\n%s", c, res.Code, res.Out, res.Err))
		}
		for _, c := range mut {
			f := writeFile(e.Dir, "in.klg", text)
			res := obs.RunCLI(env, append(append([]string{}, c...), f)...)
			cnt++
			if res.Panic != nil {
				e.Violation("command-panic: "+res.Panic.Site(), fmt.Sprintf("klog %v with %d CPUs panicked: %s", c, cpus, res.Panic.Value), map[string]any{"text": text, "cmd": c, "cpus": cpus})
			}
			outs = append(outs, fmt.Sprintf("%v => code %d\n%s\n%s\nFILE:\n%s", c, res.Code, res.Out, res.Err, readFile(f)))
		}
		if ci == 0 {
			ref0 = outs
			continue
		}
		for k := range outs {
			if outs[k] != ref0[k] {
				e.Violation("command-depends-on-cpu-count", fmt.Sprintf("with %d CPUs the command behaves differently than with 1:\n--- 1 CPU ---\n%s\n--- %d CPUs ---\n%s", cpus, trunc(ref0[k], 1500), cpus, trunc(outs[k], 1500)),
					map[string]any{"text": text, "cpus": cpus})
				break
			}
		}
	}
	e.Evals(cnt)
	e.Count("command_runs", cnt)
	if broken {
		e.Count("command_cases_on_invalid_files", 1)
	}
	e.Nontrivial(core.Hash64("cmd", text))
}

// runC07Race: concurrent parsing under the race detector (no schedule controller installed).
func runC07Race(e *core.Env) {
	rounds := int64(e.N(40, 600))
	for i := int64(0); i < rounds; i++ {
		if !e.Mine(i) {
			continue
		}
		r := core.NewRand(e.Seed, 77, uint64(i))
		shared, _ := c07BulkText(r)
		e.Begin(i, []byte(shared))
		want, _ := parseWith(parser.NewSerialParser(), shared)
		var wg sync.WaitGroup
		var mu sync.Mutex
		bad := ""
		for g := 0; g < 16; g++ {
			wg.Add(1)
			seed := r.Uint64()
			go func(g int, seed uint64) {
				defer wg.Done()
				rr := core.NewRand(seed)
				for k := 0; k < 6; k++ {
					text := shared
					w := want
					if k%2 == 1 {
						text, _ = c07SmallText(rr, len(c07HandTexts)+k)
						w, _ = parseWith(parser.NewSerialParser(), text)
					}
					got, pi := parseWith(parser.NewParallelParser(rr.Range(2, 16)), text)
					if pi == nil {
						if d := diffTuples(w, got); d != "" {
							mu.Lock()
							bad = d
							mu.Unlock()
						}
					}
				}
			}(g, seed)
		}
		wg.Wait()
		if bad != "" {
			e.Violation("parallel-differs-from-serial", "under concurrent use: "+trunc(bad, 500), map[string]any{"text": trunc(shared, 4000)})
		}
		e.Evals(16 * 6)
		e.Count("concurrent_parse_calls_under_race_detector", 16*6)
		e.Nontrivial(core.Hash64("race", shared))
		e.End(i)
	}
}
