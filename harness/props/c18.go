package props

import (
	"time"
	"fmt"
	"strings"
	"unicode/utf8"

	"github.com/jotaen/klog/klog/app/cli"
	"github.com/jotaen/klog/klog/app/cli/util"
	"verifharness/core"
	"verifharness/gen"
	"verifharness/obs"
	"verifharness/ref"
)

// C18 — colour and styling never change what is printed.

func init() {
	core.Register(&core.Prop{
		ID:    "C18",
		Level: "exploration",
		Rule: "generated valid files with Unicode summaries, Unicode tag names and values (CJK, accents, emoji, quoted values with blanks), negative and >=100h totals x command variants {print, print --with-totals, total --diff [--now], " +
			"report -a d|w|m|q|y [--fill] [--diff] [--chart] [--decimal] [--now], tags [-v] [-c] [--decimal], today [--diff] [--now] [--decimal]} x {no_colour, dark, light, basic via colour_scheme in config.ini, NO_COLOR env, --no-style flag}, warnings enabled, " +
			"virtual clock on a record's date or far away so that future-entry / unclosed-range / overlap / >24h warnings do and do not fire. oracle: after removing SGR sequences (harness's own stripper ESC[ [0-9;]* m) every scheme's output is byte-identical to the no_colour output; " +
			"--no-style and NO_COLOR outputs are byte-identical to it without stripping; in report/tags/today tables all rows have the same number of visible characters (runes). " +
			"non-trivial & distinct = (file, command variant) whose dark output contains >=3 distinct SGR sequences and >=1 non-ASCII character, by hash",
		Assumptions: []string{"generated summaries contain no ESC byte; width is counted in runes (double-width glyphs are not modelled, as in klog's own table code)"},
		Planned:     func(tier string, seed uint64) int64 { return map[string]int64{"quick": 24000, "thorough": 900000}[tier] },
		Run:         runC18,
	})
}

type c18Variant struct {
	name   string
	table  bool
	build  func(noStyle bool) runner
	follow bool // `today --follow`: two frames through hook H2; the screen-control sequences are not styling and stay
}

func runC18(e *core.Env) {
	total := int64(e.N(2000, 75000))
	for i := int64(0); i < total; i++ {
		if !e.Mine(i) {
			continue
		}
		r := core.NewRand(e.Seed, 18, uint64(i))
		today := ref.Date{Y: 2024, M: r.Range(1, 12), D: r.Range(1, 28)}
		d := gen.Document(r, gen.Opts{MaxRecs: 8, MinRecs: 1, MaxEntries: 5, Unicode: true, OpenRanges: 1, Tags: 2, Near: &today, NearSpread: r.PickInt(1, 3, 30), Hostile: r.Chance(1, 5),
			MaxHours: r.PickInt(12, 30, 300), LookAlikes: r.Chance(1, 3), TrailingBlank: r.Chance(1, 2)})
		f := writeFile(e.Dir, "c18.klg", d.Text)
		clock := obs.ClockAt(today, r.Intn(1440), 0)
		if r.Chance(1, 4) {
			clock = obs.ClockAt(ref.Date{Y: 1990, M: 1, D: 1}, 600, 0) // everything lies in the future
		}
		in := util.InputFilesArgs{File: files(f)}
		for v := 0; v < 12; v++ {
			caseID := i*12 + int64(v)
			nowOK := false
			if _, _, ok := nowClosing(d.Doc, ref.Date{Y: clock.Year(), M: int(clock.Month()), D: clock.Day()}, clock.Hour()*60+clock.Minute()); ok {
				nowOK = r.Bool()
			}
			span := 0
			if n := len(d.Doc.Recs); n > 0 {
				lo, hi := 1<<60, -(1 << 60)
				for k := range d.Doc.Recs {
					dd := d.Doc.Recs[k].Date.Days()
					if dd < lo {
						lo = dd
					}
					if dd > hi {
						hi = dd
					}
				}
				span = hi - lo
			}
			dec := r.Chance(1, 3)
			nw := util.WarnArgs{NoWarn: r.Chance(1, 3)}
			diff := r.Bool()
			var vr c18Variant
			switch v % 6 {
			case 0:
				wt := r.Bool()
				vr = c18Variant{fmt.Sprintf("print with-totals=%v", wt), false, func(ns bool) runner {
					return &cli.Print{WithTotals: wt, NoStyleArgs: util.NoStyleArgs{NoStyle: ns}, WarnArgs: nw, InputFilesArgs: in}
				}, false}
			case 1:
				vr = c18Variant{fmt.Sprintf("total --diff now=%v decimal=%v", nowOK, dec), false, func(ns bool) runner {
					return &cli.Total{DiffArgs: util.DiffArgs{Diff: true}, NowArgs: util.NowArgs{Now: nowOK}, DecimalArgs: util.DecimalArgs{Decimal: dec}, NoStyleArgs: util.NoStyleArgs{NoStyle: ns}, WarnArgs: nw, InputFilesArgs: in}
				}, false}
			case 2, 3:
				agg := r.Pick("d", "w", "m", "q", "y")
				fill, chart := r.Bool() && span <= 3000, r.Bool()
				vr = c18Variant{fmt.Sprintf("report -a %s fill=%v diff=%v chart=%v decimal=%v now=%v", agg, fill, diff, chart, dec, nowOK), true, func(ns bool) runner {
					return &cli.Report{AggregateBy: agg, Fill: fill, Chart: chart, DiffArgs: util.DiffArgs{Diff: diff}, NowArgs: util.NowArgs{Now: nowOK}, DecimalArgs: util.DecimalArgs{Decimal: dec},
						NoStyleArgs: util.NoStyleArgs{NoStyle: ns}, WarnArgs: nw, InputFilesArgs: in}
				}, false}
			case 4:
				vals, cnt := r.Chance(2, 3), r.Bool()
				vr = c18Variant{fmt.Sprintf("tags values=%v count=%v decimal=%v", vals, cnt, dec), true, func(ns bool) runner {
					return &cli.Tags{Values: vals, Count: cnt, DecimalArgs: util.DecimalArgs{Decimal: dec}, NoStyleArgs: util.NoStyleArgs{NoStyle: ns}, WarnArgs: nw, InputFilesArgs: in}
				}, false}
			case 5:
				follow := r.Chance(1, 3)
				vr = c18Variant{name: fmt.Sprintf("today diff=%v now=%v decimal=%v follow=%v", diff, nowOK, dec, follow), table: !follow, follow: follow, build: func(ns bool) runner {
					return &cli.Today{Follow: follow, DiffArgs: util.DiffArgs{Diff: diff}, NowArgs: util.NowArgs{Now: nowOK}, DecimalArgs: util.DecimalArgs{Decimal: dec}, NoStyleArgs: util.NoStyleArgs{NoStyle: ns}, WarnArgs: nw, InputFilesArgs: in}
				}}
			}
			e.Begin(caseID, []byte(fmt.Sprintf("clock=%s variant=%s\n%s", clock.Format("2006-01-02T15:04"), vr.name, d.Text)))
			c18Check(e, d, vr, clock, caseID)
			e.End(caseID)
		}
	}
}

func c18Check(e *core.Env, d *gen.Out, vr c18Variant, clock timeT, caseID int64) {
	w := map[string]any{"text": d.Text, "command": vr.name, "clock": clock.Format("2006-01-02T15:04")}
	run := func(theme string, noColorEnv, noStyle bool) (string, bool) {
		ctx, _, err := obs.NewCtx(obs.CtxOpts{ConfigDir: e.Dir + "/cfg", Cpus: 1, Theme: theme, NoColorEnv: noColorEnv, Clock: clock})
		if err != nil {
			panic("harness: " + err.Error())
		}
		cmd := vr.build(noStyle)
		if vr.follow {
			util.SetVerifRepeatHooks(&util.VerifRepeatHooks{Interval: time.Microsecond, AfterIteration: func(counter int64) bool { return counter >= 2 }})
			defer util.SetVerifRepeatHooks(nil)
		}
		var failed bool
		pi := core.Guard(func() {
			if aerr := cmd.Run(ctx); aerr != nil {
				failed = true
			}
		})
		if pi != nil {
			e.Violation("command-panic: "+pi.Site(), fmt.Sprintf("klog %s (theme %s): %s", vr.name, theme, pi.Value), w)
			return "", false
		}
		if failed {
			return "", false
		}
		return ctx.Out.String(), true
	}
	plain, ok := run("no_colour", false, false)
	if !ok {
		e.Count("command_failed_skipped", 1)
		return
	}
	if strings.Contains(plain, "\x1b") && !vr.follow || len(sgrFind(plain)) > 0 {
		e.Violation("no-colour-output-contains-escape", fmt.Sprintf("klog %s under no_colour prints an escape sequence", vr.name), w)
		return
	}
	var dark string
	for _, th := range []string{"dark", "light", "basic"} {
		styled, ok := run(th, false, false)
		if !ok {
			e.Violation("scheme-changes-outcome", fmt.Sprintf("klog %s succeeds under no_colour but fails under %s", vr.name, th), w)
			return
		}
		if th == "dark" {
			dark = styled
		}
		if stripped := obs.StripSGR(styled); stripped != plain {
			at := firstDiff(stripped, plain)
			e.Violation("styling-changes-text", fmt.Sprintf("klog %s: output under %s differs from the unstyled output in more than SGR sequences (first difference at byte %d):\nstyled, stripped: %q\nunstyled:         %q",
				vr.name, th, at, window(stripped, at), window(plain, at)), w)
			return
		}
	}
	if out, ok := run("dark", true, false); !ok || out != plain {
		e.Violation("NO_COLOR-output-differs", fmt.Sprintf("klog %s: with NO_COLOR set the output is not byte-identical to the no_colour output (first difference at byte %d)", vr.name, firstDiff(out, plain)), w)
		return
	}
	if out, ok := run("dark", false, true); !ok || out != plain {
		at := firstDiff(out, plain)
		e.Violation("no-style-output-differs", fmt.Sprintf("klog %s: with --no-style the output is not byte-identical to the no_colour output (first difference at byte %d):\n--no-style: %q\nno_colour:  %q", vr.name, at, window(out, at), window(plain, at)), w)
		return
	}
	if vr.table {
		// rows = lines up to the first empty line / warning
		var widths []int
		for _, l := range strings.Split(plain, "\n") {
			if l == "" || strings.HasPrefix(l, "[WARNING]") {
				break
			}
			widths = append(widths, utf8.RuneCountInString(l))
		}
		for k := 1; k < len(widths); k++ {
			if widths[k] != widths[0] {
				e.Violation("table-rows-misaligned", fmt.Sprintf("klog %s: row %d has %d visible characters, row 0 has %d\n%s", vr.name, k, widths[k], widths[0], plain), w)
				return
			}
		}
		// the same must hold for every styled rendering after stripping (covered by equality above)
		e.Count("tables_checked", 1)
	}
	e.Count("variants", 1)
	if strings.Contains(plain, "[WARNING]") {
		e.Count("variants_with_warnings", 1)
	}
	seqs := map[string]bool{}
	for _, m := range sgrFind(dark) {
		seqs[m] = true
	}
	nonASCII := false
	for i := 0; i < len(plain); i++ {
		if plain[i] >= 0x80 {
			nonASCII = true
			break
		}
	}
	if len(seqs) >= 3 && nonASCII {
		e.Nontrivial(core.Hash64("c18", d.Text, vr.name))
	}
	if e.WantSample() && nonASCII && vr.table && len(plain) < 700 {
		e.Sample(map[string]any{"command": vr.name, "unstyled_output": plain, "distinct_sgr_sequences_under_dark": len(seqs)})
	}
}

func sgrFind(s string) []string {
	var out []string
	for i := 0; i < len(s); i++ {
		if s[i] == 0x1b && i+1 < len(s) && s[i+1] == '[' {
			j := i + 2
			for j < len(s) && (s[j] == ';' || (s[j] >= '0' && s[j] <= '9')) {
				j++
			}
			if j < len(s) && s[j] == 'm' {
				out = append(out, s[i:j+1])
				i = j
			}
		}
	}
	return out
}

func firstDiff(a, b string) int {
	n := len(a)
	if len(b) < n {
		n = len(b)
	}
	for i := 0; i < n; i++ {
		if a[i] != b[i] {
			return i
		}
	}
	return n
}

func window(s string, at int) string {
	lo, hi := at-40, at+40
	if lo < 0 {
		lo = 0
	}
	if hi > len(s) {
		hi = len(s)
	}
	if lo > len(s) {
		lo = len(s)
	}
	return s[lo:hi]
}
