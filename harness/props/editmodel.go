package props

import (
	"fmt"
	"strings"

	"verifharness/ref"
)

// Outcome is what the abstract model predicts for one mutating command.
type Outcome struct {
	OK           bool
	Why          string   // reason of a rejection
	Doc          *ref.Doc // predicted state after the command (== input state when rejected)
	Rec          int      // index of the touched record in Doc
	Ent          int      // index of the created / modified entry (-1 = none)
	NewRecord    bool
	PositionFree bool       // the file is not date-sorted: a new record must stand in order with its two neighbours, other records keep their order
	AltSummaries [][]string // equally acceptable summaries for the touched entry (ties between "previous" records)
	Undecided    string     // the model does not decide this case
	TimeOff      int        // for start/stop/switch: the time written (offset relative to the touched record)
	UsedClock    bool       // the time came from the clock
	Shrinks      bool
}

func (o Outcome) reject(doc *ref.Doc, why string) Outcome {
	return Outcome{OK: false, Why: why, Doc: doc, Rec: -1, Ent: -1}
}

func roundHalfUp(minute, rounding int) int {
	if rounding <= 0 {
		return minute
	}
	rem := minute % rounding
	up := 0
	if rem >= rounding/2+rounding%2 {
		up = rounding
	}
	return minute - rem + up
}

func targetDate(c MCmd, env MEnv) ref.Date {
	if c.Date != nil {
		return *c.Date
	}
	switch c.DateFlag {
	case "yesterday":
		return env.Today.Plus(-1)
	case "tomorrow":
		return env.Today.Plus(1)
	}
	return env.Today
}

// autoTime computes the time start/stop/switch use, relative to the target date.
func autoTime(c MCmd, env MEnv, target ref.Date) (t ref.TimeV, fromClock bool, errWhy string) {
	if c.Time != nil {
		return *c.Time, false, ""
	}
	rounding := c.Round
	if rounding == 0 {
		rounding = env.CfgRounding
	}
	r := roundHalfUp(env.Minute, rounding)
	switch env.Today.Days() - target.Days() {
	case 0:
		return ref.TimeV{Off: r}, true, ""
	case 1:
		if r+1440 > 2879 {
			return t, true, "rounded time not representable relative to yesterday's record"
		}
		return ref.TimeV{Off: r + 1440}, true, ""
	case -1:
		return ref.TimeV{Off: r - 1440}, true, ""
	}
	return t, true, "no time given for a date that is not today, yesterday or tomorrow"
}

func findRec(doc *ref.Doc, d ref.Date) int {
	for i := range doc.Recs {
		if doc.Recs[i].Date == d {
			return i
		}
	}
	return -1
}

func isSorted(doc *ref.Doc) bool {
	for i := 1; i < len(doc.Recs); i++ {
		if doc.Recs[i].Date.Less(doc.Recs[i-1].Date) {
			return false
		}
	}
	return true
}

// insertIndex is the chronological position of a new record in a date-sorted file: after the last record dated <= d.
func insertIndex(doc *ref.Doc, d ref.Date) int {
	idx := 0
	for i := range doc.Recs {
		if !d.Less(doc.Recs[i].Date) {
			idx = i + 1
		}
	}
	return idx
}

func insertRec(doc *ref.Doc, at int, rec ref.Rec) {
	doc.Recs = append(doc.Recs, ref.Rec{})
	copy(doc.Recs[at+1:], doc.Recs[at:])
	doc.Recs[at] = rec
}

func summaryOf(lines []string) []string {
	if len(lines) == 0 {
		return []string{""}
	}
	return append([]string(nil), lines...)
}

// resumeSummaries returns the acceptable summaries for --resume.
func resumeSummaries(doc *ref.Doc, recIdx int, date ref.Date, usePrevious bool) [][]string {
	if recIdx >= 0 && len(doc.Recs[recIdx].Entries) > 0 {
		es := doc.Recs[recIdx].Entries
		return [][]string{summaryOf(es[len(es)-1].Summary)}
	}
	if !usePrevious {
		return [][]string{nil}
	}
	best := -1 << 60
	for i := range doc.Recs {
		dd := doc.Recs[i].Date.Days()
		if dd < date.Days() && dd > best {
			best = dd
		}
	}
	if best == -1<<60 {
		return [][]string{nil}
	}
	var out [][]string
	for i := range doc.Recs {
		if doc.Recs[i].Date.Days() == best {
			es := doc.Recs[i].Entries
			if len(es) > 0 {
				out = append(out, summaryOf(es[len(es)-1].Summary))
			} else {
				out = append(out, nil)
			}
		}
	}
	return out
}

// summaryArgs resolves --summary / --resume / --resume-nth.
func summaryArgs(c MCmd, doc *ref.Doc, recIdx int, date ref.Date, usePrevious bool) (alts [][]string, errWhy string) {
	if c.Summary != nil && (c.Resume || c.ResumeNth != 0) {
		return nil, "--summary conflicts with --resume"
	}
	if c.Resume && c.ResumeNth != 0 {
		return nil, "--resume conflicts with --resume-nth"
	}
	if c.Summary != nil {
		return [][]string{summaryOf(c.Summary)}, ""
	}
	if c.Resume {
		return resumeSummaries(doc, recIdx, date, usePrevious), ""
	}
	if c.ResumeNth != 0 {
		n := 0
		if recIdx >= 0 {
			n = len(doc.Recs[recIdx].Entries)
		}
		i := c.ResumeNth - 1
		if c.ResumeNth < 0 {
			i = n + c.ResumeNth
		}
		if i < 0 || i >= n {
			return nil, "no such entry to resume"
		}
		return [][]string{summaryOf(doc.Recs[recIdx].Entries[i].Summary)}, ""
	}
	return [][]string{nil}, ""
}

// altsHaveCR: a resumed summary line that ends in a stray CR is written back with the target position's line
// ending; followed by LF the pair reads as CRLF and the line turns blank, so whether the edit is possible depends on
// the file's elected line ending. The model does not predict that (the command is counted as not judged).
func altsHaveCR(alts [][]string) bool {
	for _, a := range alts {
		for _, l := range a {
			if strings.Contains(l, "\r") {
				return true
			}
		}
	}
	return false
}

func newRecord(c MCmd, env MEnv, d ref.Date) ref.Rec {
	rec := ref.Rec{Date: d, Dashes: true}
	if env.CfgShould != nil {
		v := *env.CfgShould
		rec.Should = &v
	}
	return rec
}

// pauseMinutes: whole minutes captured by the pause loop for the scripted clock offsets.
func pauseMinutes(ticks []int) int {
	c := 0
	for _, t := range ticks {
		if m := t / 60; m > c { // Go's division truncates towards zero, like diffInMinutes
			c = m
		}
	}
	return c
}

// applyModel predicts the effect of a command on a document.
func applyModel(in *ref.Doc, c MCmd, env MEnv) Outcome {
	doc := in.Clone()
	var o Outcome
	for _, ls := range [][]string{c.Summary, c.Entry, c.RecSummary} {
		for _, l := range ls {
			if strings.ContainsAny(l, "\r\n\x00") {
				return Outcome{Undecided: "control character in a summary / entry argument"}
			}
		}
	}
	date := targetDate(c, env)
	if !date.Representable() {
		return Outcome{Undecided: "target date outside the representable range"}
	}
	sorted := isSorted(in)
	ensureRecord := func() (int, bool) {
		idx := findRec(doc, date)
		if idx >= 0 {
			return idx, false
		}
		at := insertIndex(doc, date)
		insertRec(doc, at, newRecord(c, env, date))
		return at, true
	}
	switch c.Kind {
	case "create":
		rec := ref.Rec{Date: date, Dashes: true}
		if c.Should != nil {
			v := *c.Should
			rec.Should = &v
		} else if env.CfgShould != nil {
			v := *env.CfgShould
			rec.Should = &v
		}
		for _, l := range c.RecSummary {
			if !ref.ValidRecordSummaryLine(l) {
				return o.reject(in, "record summary line empty or starting with a blank")
			}
		}
		rec.Summary = append([]string(nil), c.RecSummary...)
		at := insertIndex(doc, date)
		insertRec(doc, at, rec)
		return Outcome{OK: true, Doc: doc, Rec: at, Ent: -1, NewRecord: true, PositionFree: !sorted}

	case "track":
		if len(c.Entry) == 0 {
			return Outcome{Undecided: "empty entry"}
		}
		if r0 := c.Entry[0]; r0 != "" && (r0[0] == ' ' || r0[0] == '\t') {
			// the blanks merge with the indentation; whether the result is a valid file depends on the record's style
			return Outcome{Undecided: "entry text starts with a blank"}
		}
		ent, v, why := ref.ParseEntryText(c.Entry[0])
		if v == ref.Undecided {
			return Outcome{Undecided: why}
		}
		if v == ref.NonConforming {
			return o.reject(in, "text is not an entry: "+why)
		}
		for _, l := range c.Entry[1:] {
			if !ref.ValidContinuationLine(l) {
				return o.reject(in, "blank continuation line")
			}
			if strings.ContainsAny(l, "\r\n\x00") {
				return Outcome{Undecided: "control characters"}
			}
		}
		ent.Summary = append(ent.Summary, c.Entry[1:]...)
		idx, created := ensureRecord()
		if ent.Kind == ref.KOpen && doc.Recs[idx].OpenIndex() >= 0 {
			return o.reject(in, "second open range")
		}
		doc.Recs[idx].Entries = append(doc.Recs[idx].Entries, ent)
		return Outcome{OK: true, Doc: doc, Rec: idx, Ent: len(doc.Recs[idx].Entries) - 1, NewRecord: created, PositionFree: created && !sorted}

	case "start":
		t, fromClock, why := autoTime(c, env, date)
		if why != "" {
			return o.reject(in, why)
		}
		existing := findRec(in, date)
		alts, serr := summaryArgs(c, in, existing, date, true)
		if existing >= 0 && in.Recs[existing].OpenIndex() >= 0 {
			return o.reject(in, "record already has an open range")
		}
		if serr != "" {
			return o.reject(in, serr)
		}
		if altsHaveCR(alts) {
			return Outcome{Undecided: "resumed summary carries a CR"}
		}
		idx, created := ensureRecord()
		ent := ref.Ent{Kind: ref.KOpen, Start: t, DashSpaces: true, Summary: summaryOf(alts[0])}
		doc.Recs[idx].Entries = append(doc.Recs[idx].Entries, ent)
		return Outcome{OK: true, Doc: doc, Rec: idx, Ent: len(doc.Recs[idx].Entries) - 1, NewRecord: created, PositionFree: created && !sorted, AltSummaries: alts, TimeOff: t.Off, UsedClock: fromClock}

	case "stop", "switch":
		t, fromClock, why := autoTime(c, env, date)
		if why != "" {
			return o.reject(in, why)
		}
		idx := findRec(doc, date)
		if idx < 0 && c.Kind == "stop" && c.Date == nil && c.Time == nil {
			prev := date.Plus(-1)
			if !prev.Representable() {
				return Outcome{Undecided: "fallback date outside the representable range"}
			}
			idx = findRec(doc, prev)
			if idx >= 0 {
				if t.Off+1440 > 2879 {
					return o.reject(in, "time not representable relative to the previous day's record")
				}
				t.Off += 1440
			}
		}
		if idx < 0 {
			return o.reject(in, "no record for the date")
		}
		rec := &doc.Recs[idx]
		oi := rec.OpenIndex()
		if oi < 0 {
			return o.reject(in, "no open range")
		}
		if t.Off < rec.Entries[oi].Start.Off {
			return o.reject(in, "end before start")
		}
		var alts [][]string
		if c.Kind == "switch" {
			var serr string
			alts, serr = summaryArgs(c, in, idx, date, false)
			if serr != "" {
				return o.reject(in, serr)
			}
			if altsHaveCR(alts) {
				return Outcome{Undecided: "resumed summary carries a CR"}
			}
		}
		old := rec.Entries[oi]
		closed := ref.Ent{Kind: ref.KRange, Start: old.Start, End: t, DashSpaces: old.DashSpaces, Summary: summaryOf(old.Summary)}
		shrinks := false
		if c.Kind == "stop" && c.Summary != nil {
			last := len(closed.Summary) - 1
			if c.Summary[0] != "" {
				if last == 0 && closed.Summary[0] == "" {
					closed.Summary[0] = c.Summary[0] // the entry line ends right after the value
				} else {
					closed.Summary[last] += " " + c.Summary[0]
				}
			}
			closed.Summary = append(closed.Summary, c.Summary[1:]...)
		}
		if old.ExtraQ+1 > len(ref.FormatTime(t)) {
			shrinks = true
		}
		rec.Entries[oi] = closed
		out := Outcome{OK: true, Doc: doc, Rec: idx, Ent: oi, TimeOff: t.Off, UsedClock: fromClock, Shrinks: shrinks}
		if c.Kind == "switch" {
			ent := ref.Ent{Kind: ref.KOpen, Start: t, DashSpaces: true, Summary: summaryOf(alts[0])}
			rec.Entries = append(rec.Entries, ent)
			out.AltSummaries = alts
		}
		return out

	case "pause":
		if c.Extend && c.Summary != nil {
			return o.reject(in, "--extend conflicts with --summary")
		}
		idx := findRec(doc, env.Today)
		if idx < 0 {
			idx = findRec(doc, env.Today.Plus(-1))
		}
		if idx < 0 {
			return o.reject(in, "no record for today or yesterday")
		}
		rec := &doc.Recs[idx]
		oi := rec.OpenIndex()
		if oi < 0 {
			return o.reject(in, "no open range")
		}
		mins := pauseMinutes(c.Ticks)
		if c.Extend {
			pi := -1
			for k := range rec.Entries {
				if rec.Entries[k].Kind == ref.KDur && rec.Entries[k].Dur.Mins <= 0 {
					pi = k
				}
			}
			if pi < 0 {
				return o.reject(in, "no pause to extend")
			}
			rec.Entries[pi].Dur.Mins -= mins
			return Outcome{OK: true, Doc: doc, Rec: idx, Ent: pi}
		}
		lines := summaryOf(c.Summary)
		if !c.NoTags {
			tags, amb := ref.ScanSummaryTags(rec.Entries[oi].Summary)
			if amb {
				return Outcome{Undecided: "ambiguous tag shape in the open range's summary"}
			}
			var ts []string
			for _, t := range tags {
				ts = append(ts, ref.CanonicalTag(t))
			}
			tagText := strings.Join(ts, " ")
			last := len(lines) - 1
			if last == 0 || lines[last] != "" {
				if lines[last] == "" {
					lines[last] = tagText
				} else {
					lines[last] += " " + tagText
				}
			} else {
				lines[last] += tagText
			}
		}
		for k := 1; k < len(lines); k++ {
			if !ref.ValidContinuationLine(lines[k]) {
				return Outcome{Undecided: "blank continuation line produced by tag carry-over"}
			}
		}
		ent := ref.Ent{Kind: ref.KDur, Dur: ref.DurV{Mins: -mins}, Summary: lines}
		rec.Entries = append(rec.Entries, ent)
		return Outcome{OK: true, Doc: doc, Rec: idx, Ent: len(rec.Entries) - 1}
	}
	panic("harness: unknown command " + c.Kind)
}

// trimRightLines trims trailing blanks of every line (klog leaves a dangling blank when it appends an empty tag list).
func trimRightLines(ls []string) []string {
	out := make([]string, len(ls))
	for i, l := range ls {
		out[i] = strings.TrimRight(l, " \t")
	}
	return out
}

// compareWithModel checks the records read back from the file against the model's prediction.
// Notation of freshly generated literals (date separator, clock convention, dash spacing, placeholder length,
// sign spelling of a zero pause) is not part of this comparison: it is taken over from the observation.
func compareWithModel(o Outcome, got *ref.Doc, c MCmd) string {
	want := o.Doc.Clone()
	try := func(w *ref.Doc) string {
		if len(w.Recs) != len(got.Recs) {
			return fmt.Sprintf("record count: model %d, file %d", len(w.Recs), len(got.Recs))
		}
		if o.Rec >= 0 && o.Rec < len(w.Recs) {
			wr, gr := &w.Recs[o.Rec], &got.Recs[o.Rec]
			if o.NewRecord {
				wr.Dashes = gr.Dashes
			}
			adopt := func(k int) {
				if k < 0 || k >= len(wr.Entries) || k >= len(gr.Entries) {
					return
				}
				we, ge := &wr.Entries[k], &gr.Entries[k]
				if we.Kind != ge.Kind {
					return
				}
				switch we.Kind {
				case ref.KOpen:
					we.Start.H12, we.DashSpaces, we.ExtraQ = ge.Start.H12, ge.DashSpaces, ge.ExtraQ
				case ref.KRange:
					we.End.H12 = ge.End.H12
				case ref.KDur:
					we.Dur.ForcePlus, we.Dur.ZeroSign = ge.Dur.ForcePlus, ge.Dur.ZeroSign
				}
			}
			switch c.Kind {
			case "start":
				adopt(o.Ent)
			case "stop":
				adopt(o.Ent)
			case "switch":
				adopt(o.Ent)
				adopt(len(wr.Entries) - 1)
			case "pause":
				adopt(o.Ent)
				if o.Ent >= 0 && o.Ent < len(wr.Entries) && o.Ent < len(gr.Entries) && !c.Extend {
					if strings.Join(trimRightLines(wr.Entries[o.Ent].Summary), "\n") == strings.Join(trimRightLines(gr.Entries[o.Ent].Summary), "\n") {
						wr.Entries[o.Ent].Summary = gr.Entries[o.Ent].Summary
					}
				}
			}
		}
		return ref.DiffDocs(w, got, true)
	}
	// alternatives for the resumed summary
	alts := o.AltSummaries
	if len(alts) == 0 {
		alts = [][]string{nil}
	}
	first := ""
	for ai, alt := range alts {
		base := want.Clone()
		if len(o.AltSummaries) > 0 && o.Rec >= 0 {
			k := o.Ent
			if c.Kind == "switch" {
				k = len(base.Recs[o.Rec].Entries) - 1
			}
			if k >= 0 && k < len(base.Recs[o.Rec].Entries) {
				base.Recs[o.Rec].Entries[k].Summary = summaryOf(alt)
			}
		}
		candidates := []*ref.Doc{base}
		var positions []int
		if o.PositionFree && o.NewRecord {
			// the file is not sorted by date, so "its chronological position" cannot mean a global order; what it does
			// mean - and what is demanded - is that the new record stands in order with its neighbours (the record in
			// front of it is not later, the record behind it is later; such a place always exists) and that all other
			// records keep their order
			rec := base.Recs[o.Rec]
			rest := base.Clone()
			rest.Recs = append(rest.Recs[:o.Rec], rest.Recs[o.Rec+1:]...)
			candidates = nil
			for p := 0; p <= len(rest.Recs); p++ {
				if p > 0 && rec.Date.Less(rest.Recs[p-1].Date) || p < len(rest.Recs) && !rec.Date.Less(rest.Recs[p].Date) {
					continue
				}
				cd := rest.Clone()
				insertRec(cd, p, rec.Clone())
				candidates = append(candidates, cd)
				positions = append(positions, p)
			}
		}
		for ci, cd := range candidates {
			oo := o
			if o.PositionFree && o.NewRecord {
				oo.Rec = positions[ci]
			}
			save := o.Rec
			o.Rec = oo.Rec
			d := try(cd)
			o.Rec = save
			if d == "" {
				return ""
			}
			if ai == 0 && ci == 0 || first == "" {
				if first == "" {
					first = d
				}
			}
		}
	}
	return first
}
