package props

import (
	"fmt"
	"os"
	"strings"

	"verifharness/core"
	"verifharness/gen"
	"verifharness/ref"
)

// C03 — mutating commands touch only the lines they are defined to change.
//
// The oracle is a pure function of the bytes before/after and the command kind; it uses no klog code.

func init() {
	core.Register(&core.Prop{
		ID:    "C03",
		Level: "exploration",
		Rule: "(file, command) pairs: generated valid files under hostile layouts (indentation style differing between records, CRLF/LF mixed per record and per line, no final newline, whitespace-only lines before/between/after records, trailing blanks also on open-range lines, " +
			"placeholders of 1-10 '?', multi-line summaries, '?', '-5m', '8:00-9:00' look-alikes inside summaries; also empty and blank-only files) x every mutating command with PRNG parameters (target record first/middle/last/absent, dates before/between/after existing ones, " +
			"explicit and clock-derived times, one- and multi-line summaries, tags; pause loops of 1-6 scripted ticks through hook H2), real files on disk, 1 in 10 through the full CLI. for every SUCCESSFUL command the harness's own line splitter and matcher decide: " +
			"after = before with one contiguous inserted block (at most), no original line lost, reordered or changed in text or line ending, except (a) the open-range line of stop/switch where exactly the '?' run is replaced by a time literal and (stop --summary) text is appended to the entry's last line, " +
			"(b) the pause line of pause --extend where exactly the duration token changes, (c) a final line without newline gaining one when lines are added after it, (d) wholesale replacement when the original held only blank lines. " +
			"non-trivial & distinct = pairs on files with >=3 records, target not the last record, and >=1 of {CRLF, no final newline, whitespace-only separator, multi-line summary on the rewritten entry}, by hash",
		Assumptions: []string{"which style the inserted lines use is C11's concern, where they are placed and what they denote is C04's; failed commands are C05's"},
		Planned:     func(tier string, seed uint64) int64 { return map[string]int64{"quick": 36000, "thorough": 1200000}[tier] },
		Run:         runC03,
	})
}

func runC03(e *core.Env) {
	total := int64(e.N(12000, 400000))
	for i := int64(0); i < total; i++ {
		if !e.Mine(i) {
			continue
		}
		r := core.NewRand(e.Seed, 3, uint64(i))
		today := ref.Date{Y: r.PickInt(2024, 2025, 1987), M: r.Range(1, 12), D: r.Range(1, 28)}
		var text string
		var d *gen.Out
		switch {
		case i%97 == 0:
			text = r.Pick("", "\n", "  \n\t\n", "\r\n\r\n", "    ", "\n\n\n")
			d = &gen.Out{Doc: &ref.Doc{}, Feat: map[string]bool{}}
		default:
			d = gen.Document(r, gen.Opts{MaxRecs: r.PickInt(7, 7, 7, 14), MinRecs: 1, MaxEntries: 4, Near: &today, NearSpread: r.PickInt(1, 2, 4), Sorted: r.Chance(2, 3), Hostile: true, OpenRanges: 1, Tags: 1,
				Unicode: r.Chance(1, 3), LookAlikes: true, TrailingBlank: true, MaxHours: 12})
			text = d.Text
			switch r.Intn(5) {
			case 0: // bytes that are not valid UTF-8 inside summaries (Latin-1 files etc.): such files parse, every byte must survive
				if t2, ok := c08Decorate(r, d); ok {
					text = t2
				}
			case 1: // a tab instead of the space between an entry's value and its summary
				text = c03Tabify(r, d)
			}
		}
		if k := core.Hash64("c03-size", fmt.Sprint(e.Seed, i)) % 250; k < 2 && text != "" {
			// a big file behind the generated records: more than a thousand records, or a line beyond 64 KiB
			if !strings.HasSuffix(text, "\n") {
				text += "\n"
			}
			if k == 0 {
				text += "\n" + manyRecordsText(r, r.PickInt(1001, 1200))
			} else {
				text += "\n" + longLineText(r, r.PickInt(65536, 70000))
			}
		}
		if i == 23 && text != "" {
			// one file per run between 8 and 9 MiB (a record with 135 summary lines of 65 000 characters behind the generated records)
			if !strings.HasSuffix(text, "\n") {
				text += "\n"
			}
			text += "\n0001-01-01\n" + strings.Repeat(strings.Repeat("x", 65000)+"\n", 135)
			e.Count("files_between_8_and_9_MiB", 1)
		}
		file := e.Dir + "/c03.klg"
		model := d.Doc
		for k := 0; k < 3; k++ {
			caseID := i*3 + int64(k)
			env := genEnv(r, today)
			cmd := genLikelyCommand(r, model, env, true)
			if cmd.Kind == "pause" && len(cmd.Ticks) >= 2 && core.Hash64("c03-foreign", fmt.Sprint(e.Seed, caseID))%2 == 0 {
				// while the pause loop runs, somebody else (an editor, another klog) appends a record to the file
				cmd.ForeignEdit = 1 + int(core.Hash64("c03-foreign-at", fmt.Sprint(e.Seed, caseID))%uint64(len(cmd.Ticks)))
			}
			if i == 23 && k == 0 {
				cmd = MCmd{Kind: "track", Entry: []string{"1h into the big file"}, DateFlag: "today"} // a command that succeeds on any valid file
			}
			if err := os.WriteFile(file, []byte(text), 0644); err != nil {
				panic(err)
			}
			e.Begin(caseID, []byte(fmt.Sprintf("clock=%s cmd=%s\n%s", env.Clock().Format("2006-01-02T15:04:05"), cmd.String(), text)))
			res := runMutating(e, cmd, env, file, caseID%10 == 0)
			after := readFile(file)
			w := map[string]any{"before": text, "after": after, "command": cmd.String(), "clock": env.Clock().Format("2006-01-02T15:04:05"), "config": env.ConfigFile()}
			if res.Panic != nil {
				e.Violation("command-panic: "+res.Panic.Site(), fmt.Sprintf("`klog %s` panicked: %s", cmd.String(), res.Panic.Value), w)
			} else if res.OK {
				if res.ForeignDone {
					// two stretches: the file klog was given -> what it had made of it when the other party came;
					// what the other party left -> the final file (from then on only the pause value may change)
					w["file_when_the_other_party_came"], w["file_as_the_other_party_left_it"] = res.ForeignBefore, res.ForeignAfter
					later := cmd
					later.Extend = true
					if msg := c03Judge(text, res.ForeignBefore, cmd); msg != "" {
						e.Violation("lines-not-preserved: "+cmd.Kind, fmt.Sprintf("`klog %s`: %s", cmd.String(), msg), w)
					} else if msg := c03Judge(res.ForeignAfter, after, later); msg != "" {
						e.Violation("lines-not-preserved: pause after a foreign edit", fmt.Sprintf("`klog %s`, judged against the file as the other party left it: %s", cmd.String(), msg), w)
					}
					e.Count("pause_runs_with_a_foreign_edit_in_between", 1)
					if after != res.ForeignAfter {
						e.Count("pause_runs_writing_after_a_foreign_edit", 1)
					}
				} else if msg := c03Judge(text, after, cmd); msg != "" {
					e.Violation("lines-not-preserved: "+cmd.Kind, fmt.Sprintf("`klog %s`: %s", cmd.String(), msg), w)
				}
				e.Count("successful_commands", 1)
				e.Count("successful_"+cmd.Kind, 1)
				nrec := len(d.Doc.Recs)
				special := d.Feat["crlf"] || d.Feat["mixed_eol"] || d.Feat["no_final_newline"] || d.Feat["ws_only_lines"] || d.Feat["multi_line_summary"]
				if nrec >= 3 && special && !strings.HasSuffix(after, lastRecordText(text)) || nrec >= 3 && special && k == 0 {
					e.Nontrivial(core.Hash64("c03", text, cmd.String()))
				}
				if e.WantSample() && len(text) < 300 && special {
					e.Sample(w)
				}
			} else {
				e.Count("failed_commands_not_judged_here", 1)
			}
			e.End(caseID)
		}
	}
}

func lastRecordText(text string) string {
	t := strings.TrimRight(text, " \t\r\n")
	if i := strings.LastIndex(t, "\n\n"); i >= 0 {
		return t[i:]
	}
	return t
}

type lineKindC03 int

const (
	sameLine lineKindC03 = iota
	eolGain
	placeholderRewrite
	placeholderAppend // the placeholder replaced and text appended to the same line
	appendRewrite
	durationRewrite
	noMatch
)

func c03Match(o, n ref.SrcLine, cmd MCmd) lineKindC03 {
	if o == n {
		return sameLine
	}
	// A final line that ends in a stray carriage return (content, no line ending) and gains "\n" afterwards reads as
	// text + CRLF to a line splitter. Byte-wise nothing of the original changed: compare with the CR kept in the text.
	// (With several stray CRs the new text still ends in one: then the texts must differ by exactly that CR.)
	if o.Ending == "" && strings.HasSuffix(o.Text, "\r") && n.Ending == "\r\n" && (!strings.HasSuffix(n.Text, "\r") || o.Text == n.Text+"\r") {
		n = ref.SrcLine{Text: n.Text + "\r", Ending: "\n"}
	}
	if o.Text == n.Text && o.Ending == "" && n.Ending != "" {
		return eolGain
	}
	if o.Ending != n.Ending {
		// an ending may only be gained, never changed; combined with a rewrite it is still the last line gaining its ending
		if !(o.Ending == "" && n.Ending != "") {
			return noMatch
		}
	}
	switch cmd.Kind {
	case "stop", "switch":
		if i := strings.IndexByte(o.Text, '?'); i >= 0 {
			j := i
			for j < len(o.Text) && o.Text[j] == '?' {
				j++
			}
			prefix, rest := o.Text[:i], o.Text[j:]
			if strings.HasPrefix(n.Text, prefix) && strings.HasSuffix(strings.TrimRight(prefix, " "), "-") {
				tail := n.Text[len(prefix):]
				k := strings.IndexAny(tail, " \t")
				tok := tail
				if k >= 0 {
					tok = tail[:k]
				} else {
					k = len(tail)
				}
				if _, ok := ref.ParseTime(tok); ok {
					remaining := tail[k:]
					if remaining == rest {
						return placeholderRewrite
					}
					if cmd.Kind == "stop" && cmd.Summary != nil && strings.HasPrefix(remaining, rest+" ") && len(remaining) > len(rest)+1 {
						return placeholderAppend
					}
				}
			}
		}
		if cmd.Kind == "stop" && cmd.Summary != nil && !ref.IsBlankST(o.Text) && strings.HasPrefix(n.Text, o.Text+" ") && len(n.Text) > len(o.Text)+1 {
			return appendRewrite
		}
	case "pause":
		if cmd.Extend {
			ot, nt := strings.TrimLeft(o.Text, " \t"), strings.TrimLeft(n.Text, " \t")
			if len(o.Text)-len(ot) == len(n.Text)-len(nt) && o.Text[:len(o.Text)-len(ot)] == n.Text[:len(n.Text)-len(nt)] {
				ov, orest := splitTok(ot)
				nv, nrest := splitTok(nt)
				_, ok1, _ := ref.ParseDuration(ov)
				_, ok2, _ := ref.ParseDuration(nv)
				if ok1 && ok2 && orest == nrest {
					return durationRewrite
				}
			}
		}
	}
	return noMatch
}

func splitTok(s string) (string, string) {
	if k := strings.IndexAny(s, " \t"); k >= 0 {
		return s[:k], s[k:]
	}
	return s, ""
}

// c03Judge decides whether `after` is `before` plus the permitted changes. "" = fine.
func c03Judge(before, after string, cmd MCmd) string {
	b, a := ref.SplitLines(before), ref.SplitLines(after)
	blankOnly := true
	for _, l := range b {
		if !ref.IsBlankST(l.Text) {
			blankOnly = false
		}
	}
	if blankOnly {
		return "" // (d) a file of blank lines may be replaced wholesale
	}
	if len(a) < len(b) {
		return fmt.Sprintf("the file has %d lines, it had %d: original lines were deleted", len(a), len(b))
	}
	// longest prefix / suffix of `before` that survives (identically or through a permitted rewrite)
	p := 0
	for p < len(b) && c03Match(b[p], a[p], cmd) != noMatch {
		p++
	}
	ins := len(a) - len(b)
	s := 0
	for s < len(b)-p && c03Match(b[len(b)-1-s], a[len(a)-1-s], cmd) != noMatch {
		s++
	}
	if p+s < len(b) {
		// find the first original line that is neither kept in place in the prefix nor in the suffix
		k := p
		return fmt.Sprintf("original line %d %q (ending %q) does not survive: at its position the file now has %q (ending %q); only one contiguous block may be inserted and only the rewritten entry may change",
			k+1, b[k].Text, b[k].Ending, a[k].Text, a[k].Ending)
	}
	// count what kind of matches were needed, preferring the longest prefix
	s = len(b) - p
	rewrites := map[lineKindC03][]int{}
	for i := 0; i < p; i++ {
		rewrites[c03Match(b[i], a[i], cmd)] = append(rewrites[c03Match(b[i], a[i], cmd)], i)
	}
	for i := 0; i < s; i++ {
		bi, ai := len(b)-1-i, len(a)-1-i
		k := c03Match(b[bi], a[ai], cmd)
		rewrites[k] = append(rewrites[k], bi)
	}
	if pa := rewrites[placeholderAppend]; len(pa) > 0 {
		// text went onto the placeholder line itself: that line has to be the entry's last line
		pl := pa[0]
		ind := b[pl].Text[:len(b[pl].Text)-len(strings.TrimLeft(b[pl].Text, " \t"))]
		if ind != "" && pl+1 < len(b) && strings.HasPrefix(b[pl+1].Text, ind+ind) && !ref.IsBlankST(b[pl+1].Text) {
			return fmt.Sprintf("text was appended to line %d (the open range), which is not the LAST line of that entry: its summary continues on line %d", pl+1, pl+2)
		}
		if len(rewrites[appendRewrite]) > 0 {
			return fmt.Sprintf("text was appended to the rewritten open range (line %d) and to another line (%v)", pl+1, plus1(rewrites[appendRewrite]))
		}
		rewrites[placeholderRewrite] = append(rewrites[placeholderRewrite], pa...)
		delete(rewrites, placeholderAppend)
	}
	if n := len(rewrites[placeholderRewrite]); n > 1 {
		return fmt.Sprintf("%d open-range lines were rewritten (lines %v)", n, plus1(rewrites[placeholderRewrite]))
	}
	if n := len(rewrites[appendRewrite]); n > 1 || (n == 1 && len(rewrites[placeholderRewrite]) == 0) {
		return fmt.Sprintf("text was appended to %d lines (lines %v) without a rewritten open range before them", n, plus1(rewrites[appendRewrite]))
	}
	if len(rewrites[appendRewrite]) == 1 {
		pl, ap := rewrites[placeholderRewrite][0], rewrites[appendRewrite][0]
		if ap <= pl {
			return "text was appended to a line in front of the rewritten open range"
		}
		ind := b[pl].Text[:len(b[pl].Text)-len(strings.TrimLeft(b[pl].Text, " \t"))]
		for k := pl + 1; k <= ap; k++ {
			if !strings.HasPrefix(b[k].Text, ind+ind) || ind == "" {
				return fmt.Sprintf("text was appended to line %d, which is not a continuation line of the rewritten entry (line %d)", ap+1, pl+1)
			}
		}
		if ap+1 < len(b) && strings.HasPrefix(b[ap+1].Text, ind+ind) && !ref.IsBlankST(b[ap+1].Text) {
			return fmt.Sprintf("text was appended to line %d, which is not the LAST line of the rewritten entry", ap+1)
		}
	}
	if n := len(rewrites[durationRewrite]); n > 1 {
		return fmt.Sprintf("%d duration values were rewritten", n)
	}
	if eg := rewrites[eolGain]; len(eg) > 0 {
		if len(eg) > 1 || eg[0] != len(b)-1 || ins == 0 || p != len(b) {
			return fmt.Sprintf("line %d gained a line ending although no lines were added directly after the end of the file", eg[0]+1)
		}
	}
	// a rewrite combined with a gained ending is only possible on the last line with lines added after it
	for kind, idxs := range rewrites {
		if kind == sameLine || kind == eolGain {
			continue
		}
		for _, i := range idxs {
			ai := i
			if i >= p {
				ai = i + ins
			}
			if b[i].Ending != a[ai].Ending && !(i == len(b)-1 && ins > 0 && p == len(b)) {
				return fmt.Sprintf("the line ending of line %d changed", i+1)
			}
		}
	}
	maxBlocks := 1
	if ins > 0 && maxBlocks < 1 {
		return "lines were inserted although the command adds nothing"
	}
	if cmd.Kind == "pause" && cmd.Extend && ins > 0 {
		return fmt.Sprintf("pause --extend inserted %d lines", ins)
	}
	return ""
}

func plus1(xs []int) []int {
	out := make([]int, len(xs))
	for i, x := range xs {
		out[i] = x + 1
	}
	return out
}

// c03Tabify replaces the blank between value and summary by a tab on some entry lines (klog accepts that).
func c03Tabify(r *core.Rand, d *gen.Out) string {
	ls := ref.SplitLines(d.Text)
	if len(ls) != len(d.Lines) {
		return d.Text
	}
	var sb strings.Builder
	for i, l := range ls {
		t := l.Text
		if li := d.Lines[i]; li.Kind == gen.LEntry && r.Chance(1, 2) {
			sm := d.Doc.Recs[li.Rec].Entries[li.Ent].Summary[0]
			if sm != "" && len(t) > len(sm)+1 && t[len(t)-len(sm)-1] == ' ' {
				t = t[:len(t)-len(sm)-1] + "\t" + sm
			}
		}
		sb.WriteString(t + l.Ending)
	}
	return sb.String()
}
