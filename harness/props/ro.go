package props

import (
	"fmt"
	"regexp"
	"strconv"
	"strings"
	"time"

	"github.com/jotaen/klog/klog/app"
	"verifharness/core"
	"verifharness/obs"
	"verifharness/ref"
)

// roResult is the observation of one read-only command on the struct path.
type roResult struct {
	Out   string
	Err   app.Error
	Panic *core.PanicInfo
}

type runner interface {
	Run(ctx app.Context) app.Error
}

// runRO runs a command struct against a freshly built real context (wrapped: virtual clock, captured stdout).
func runRO(e *core.Env, cmd runner, cpus int, theme string, configFile string, clock time.Time) roResult {
	ctx, _, err := obs.NewCtx(obs.CtxOpts{ConfigDir: e.Dir + "/cfg", Cpus: cpus, Theme: theme, ConfigFile: configFile, Clock: clock})
	if err != nil {
		panic("harness: " + err.Error())
	}
	var res roResult
	res.Panic = core.Guard(func() { res.Err = cmd.Run(ctx) })
	res.Out = ctx.Out.String()
	return res
}

func files(paths ...string) []app.FileOrBookmarkName {
	var out []app.FileOrBookmarkName
	for _, p := range paths {
		out = append(out, app.FileOrBookmarkName(p))
	}
	return out
}

// totalOutput is the parsed output of `klog total`.
type totalOutput struct {
	Total, Should, Diff string
	HasShould           bool
	Records             int
	Rest                string
}

var inRecordsRe = regexp.MustCompile(`^\(In (\d+) records?\)$`)

func parseTotalOutput(out string) (t totalOutput, err error) {
	lines := strings.Split(out, "\n")
	i := 0
	if i >= len(lines) || !strings.HasPrefix(lines[i], "Total: ") {
		return t, fmt.Errorf("first line is not `Total: …`: %q", trunc(out, 200))
	}
	t.Total = strings.TrimPrefix(lines[i], "Total: ")
	i++
	if i < len(lines) && strings.HasPrefix(lines[i], "Should: ") {
		t.HasShould = true
		t.Should = strings.TrimPrefix(lines[i], "Should: ")
		i++
		if i >= len(lines) || !strings.HasPrefix(lines[i], "Diff: ") {
			return t, fmt.Errorf("`Should:` is not followed by `Diff:`")
		}
		t.Diff = strings.TrimPrefix(lines[i], "Diff: ")
		i++
	}
	if i >= len(lines) {
		return t, fmt.Errorf("missing `(In N records)` line")
	}
	m := inRecordsRe.FindStringSubmatch(lines[i])
	if m == nil {
		return t, fmt.Errorf("expected `(In N records)`, got %q", lines[i])
	}
	t.Records, _ = strconv.Atoi(m[1])
	t.Rest = strings.Join(lines[i+1:], "\n")
	return t, nil
}

// nowClosing computes what `--now` must do to a document at the given clock:
// extra minutes per record, or ok=false if some open range cannot be closed.
func nowClosing(doc *ref.Doc, today ref.Date, minuteOfDay int) (extra []int, closedAny bool, ok bool) {
	extra = make([]int, len(doc.Recs))
	for i := range doc.Recs {
		r := &doc.Recs[i]
		oi := r.OpenIndex()
		if oi < 0 {
			continue
		}
		var end int
		switch r.Date.Days() {
		case today.Days():
			end = minuteOfDay
		case today.Days() - 1:
			end = minuteOfDay + 1440
		default:
			return nil, false, false
		}
		start := r.Entries[oi].Start.Off
		if end < start {
			return nil, false, false
		}
		extra[i] = end - start
		closedAny = true
	}
	return extra, closedAny, true
}

// cliAgrees runs the same command through the complete CLI path (kong decoding, main.Run, hook H3) and demands the
// same outcome and stdout as the struct path produced. It reports a violation and returns false otherwise.
func cliAgrees(e *core.Env, w map[string]any, args []string, cpus int, theme, configFile string, clock time.Time, structOut string, structFailed bool) bool {
	res := obs.RunCLI(obs.CLIEnv{ConfigDir: e.Dir + "/cfg", Cpus: cpus, Theme: theme, ConfigFile: configFile, Clock: clock}, args...)
	if res.Panic != nil {
		e.Violation("cli-panic: "+res.Panic.Site(), fmt.Sprintf("`klog %s` panicked: %s", strings.Join(args, " "), res.Panic.Value), w)
		return false
	}
	if (res.Code != 0) != structFailed {
		e.Violation("cli-path-outcome-differs", fmt.Sprintf("`klog %s` through the full CLI exits with %d (%s), the command itself reported failure=%v", strings.Join(args, " "), res.Code, trunc(res.Err, 200), structFailed), w)
		return false
	}
	if !structFailed && res.Out != structOut {
		e.Violation("cli-path-output-differs", fmt.Sprintf("`klog %s` through the full CLI prints\n%s\nthe command invoked with the same (decoded) arguments prints\n%s", strings.Join(args, " "), trunc(res.Out, 800), trunc(structOut, 800)), w)
		return false
	}
	e.Count("cases_also_through_full_cli", 1)
	return true
}
