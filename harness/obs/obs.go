// Package obs contains the observation side of the monitors: conversion of
// klog's values into comparable plain data (through exported accessors only),
// an interposed app.Context with a virtual clock and captured output, and
// parsers for klog's textual outputs.
package obs

import (
	"fmt"
	"os"
	"path/filepath"
	"regexp"
	"strings"
	"time"

	"github.com/jotaen/klog/klog"
	"github.com/jotaen/klog/klog/app"
	tf "github.com/jotaen/klog/klog/app/cli/terminalformat"
	"github.com/jotaen/klog/klog/parser/txt"
	"verifharness/ref"
)

// TimeOf converts a klog time into the model's representation.
func TimeOf(t klog.Time) ref.TimeV {
	return ref.TimeV{Off: t.MidnightOffset().InMinutes(), H12: !t.Format().Use24HourClock}
}

// DurOf converts a klog duration; the sign notation is recovered from ToString().
func DurOf(d klog.Duration) ref.DurV {
	s := d.ToString()
	v := ref.DurV{Mins: d.InMinutes()}
	if strings.HasPrefix(s, "+") {
		v.ForcePlus = true
		if v.Mins == 0 {
			v.ZeroSign = 1
		}
	} else if strings.HasPrefix(s, "-") && v.Mins == 0 {
		v.ZeroSign = -1
	}
	return v
}

// DocOf flattens klog records into the model.
func DocOf(rs []klog.Record) *ref.Doc {
	doc := &ref.Doc{}
	for _, r := range rs {
		doc.Recs = append(doc.Recs, RecOf(r))
	}
	return doc
}

func RecOf(r klog.Record) ref.Rec {
	rec := ref.Rec{
		Date:   ref.Date{Y: r.Date().Year(), M: r.Date().Month(), D: r.Date().Day()},
		Dashes: r.Date().Format().UseDashes,
	}
	if m := r.ShouldTotal().InMinutes(); m != 0 {
		rec.Should = &m
	}
	rec.Summary = append([]string(nil), r.Summary().Lines()...)
	for _, e := range r.Entries() {
		e := e
		ent := klog.Unbox[ref.Ent](&e,
			func(rg klog.Range) ref.Ent {
				return ref.Ent{Kind: ref.KRange, Start: TimeOf(rg.Start()), End: TimeOf(rg.End()), DashSpaces: rg.Format().UseSpacesAroundDash}
			},
			func(d klog.Duration) ref.Ent { return ref.Ent{Kind: ref.KDur, Dur: DurOf(d)} },
			func(o klog.OpenRange) ref.Ent {
				return ref.Ent{Kind: ref.KOpen, Start: TimeOf(o.Start()), DashSpaces: o.Format().UseSpacesAroundDash, ExtraQ: o.Format().AdditionalPlaceholderChars}
			},
		)
		ent.Summary = append([]string(nil), e.Summary().Lines()...)
		if len(ent.Summary) == 0 {
			ent.Summary = []string{""}
		}
		rec.Entries = append(rec.Entries, ent)
	}
	return rec
}

// ErrInfo is the observable content of a parser error.
type ErrInfo struct {
	Line     int // 1-based
	Pos      int
	Col      int
	Len      int
	Code     string
	Title    string
	Details  string
	Message  string
	LineText string
	Panic    string // non-empty if an accessor panicked
}

// ErrorsOf extracts all observable facts of parser errors; a panicking accessor
// is recorded, not propagated.
func ErrorsOf(errs []txt.Error) []ErrInfo {
	out := make([]ErrInfo, 0, len(errs))
	for _, e := range errs {
		var ei ErrInfo
		func() {
			defer func() {
				if r := recover(); r != nil {
					ei.Panic = fmt.Sprint(r)
				}
			}()
			ei.Line = e.LineNumber()
			ei.Pos = e.Position()
			ei.Col = e.Column()
			ei.Len = e.Length()
			ei.Code = e.Code()
			ei.Title = e.Title()
			ei.Details = e.Details()
			ei.Message = e.Message()
			_ = e.Error()
			_ = e.Origin()
			ei.LineText = e.LineText()
		}()
		out = append(out, ei)
	}
	return out
}

// BlockLine is one line of a parsed block with its global index.
type BlockLine struct {
	Text   string
	Ending string
	Index  int
}

// BlocksOf flattens blocks into comparable data.
func BlocksOf(bs []txt.Block) [][]BlockLine {
	out := make([][]BlockLine, 0, len(bs))
	for _, b := range bs {
		var ls []BlockLine
		for i, l := range b.Lines() {
			ls = append(ls, BlockLine{Text: l.Text, Ending: l.LineEnding, Index: b.OverallLineIndex(i)})
		}
		out = append(out, ls)
	}
	return out
}

// ---------- interposed context ----------

// Ctx wraps a real app.Context; only the clock and the output are replaced.
type Ctx struct {
	app.Context
	Clock    time.Time
	Out      strings.Builder
	NowReads int
	OnNow    func() // called on every clock reading (after counting)
	OnPrint  func(s string)
}

func (c *Ctx) Now() time.Time {
	c.NowReads++
	if c.OnNow != nil {
		c.OnNow()
	}
	return c.Clock
}

func (c *Ctx) Print(s string) {
	if c.OnPrint != nil {
		c.OnPrint(s)
	}
	c.Out.WriteString(s)
}

// CtxOpts configure a context the way a user's environment would.
type CtxOpts struct {
	ConfigDir  string // klog config folder (bookmarks.json lives here); created if missing
	Cpus       int    // 0/1 = serial parser
	Theme      string // "", dark, light, basic, no_colour
	ConfigFile string // contents of config.ini ("" = none)
	NoColorEnv bool
	Clock      time.Time
}

// BuildConfig builds an app.Config through the public readers, like klog.go does.
func BuildConfig(o CtxOpts) (app.Config, error) {
	cpus := o.Cpus
	if cpus <= 0 {
		cpus = 1
	}
	getenv := func(k string) string {
		if k == "NO_COLOR" && o.NoColorEnv {
			return "1"
		}
		return ""
	}
	content := o.ConfigFile
	if o.Theme != "" {
		content = "colour_scheme = " + o.Theme + "\n" + content
	}
	cfg, err := app.NewConfig(app.FromDeterminedValues{NumCpus: cpus}, app.FromEnvVars{GetVar: getenv}, app.FromConfigFile{FileContents: content})
	if err != nil {
		return app.Config{}, fmt.Errorf("config: %s: %s", err.Error(), err.Details())
	}
	return cfg, nil
}

// NewCtx creates the wrapped real context.
func NewCtx(o CtxOpts) (*Ctx, app.Config, error) {
	cfg, err := BuildConfig(o)
	if err != nil {
		return nil, cfg, err
	}
	if o.ConfigDir == "" {
		return nil, cfg, fmt.Errorf("ConfigDir required")
	}
	_ = os.MkdirAll(o.ConfigDir, 0755)
	abs, _ := filepath.Abs(o.ConfigDir)
	inner := app.NewContext(app.NewFileOrPanic(abs), app.Meta{Version: "verif"}, tf.NewStyler(cfg.ColourScheme.Value()), cfg)
	return &Ctx{Context: inner, Clock: o.Clock}, cfg, nil
}

// ---------- text helpers ----------

var sgrRe = regexp.MustCompile("\x1b\\[[0-9;]*m")

// StripSGR removes ANSI SGR sequences (the harness's own stripper).
func StripSGR(s string) string { return sgrRe.ReplaceAllString(s, "") }

// clockZones: klog reads the wall-clock fields of the instant it is given (local time). The virtual clock therefore carries
// different zones; the date and time of day a case asks for are the *local* fields, whatever the zone.
var clockZones = []*time.Location{time.UTC, time.FixedZone("UTC-5", -5*3600), time.FixedZone("UTC+2", 2*3600), time.FixedZone("UTC+5:45", 5*3600+45*60),
	time.FixedZone("UTC-11", -11*3600), time.FixedZone("UTC+13", 13*3600), time.UTC}

// dstZones are real zones with daylight-saving transitions (loaded lazily; absent tzdata simply disables them).
var dstZones []*time.Location
var dstLoaded bool

func loadDST() {
	if dstLoaded {
		return
	}
	dstLoaded = true
	for _, n := range []string{"Europe/Berlin", "America/New_York", "Australia/Lord_Howe", "Pacific/Auckland"} {
		if l, err := time.LoadLocation(n); err == nil {
			dstZones = append(dstZones, l)
			dstByName[n] = l
		}
	}
}

// ClockAt builds a clock reading whose local date and time of day are the given ones; the zone varies deterministically
// (fixed offsets, and real DST zones - on 23- and 25-hour days "yesterday" is not "24 hours ago").
func ClockAt(d ref.Date, minuteOfDay, second int) time.Time {
	loadDST()
	k := ((d.Days()%7+7)%7 + minuteOfDay) % (len(clockZones) + len(dstZones))
	var loc *time.Location
	if z, ok := dstZoneOf[d]; ok && minuteOfDay%5 != 4 && dstByName[z] != nil {
		loc = dstByName[z] // a date next to a transition of that zone: mostly observed in that very zone
	} else if k < len(clockZones) {
		loc = clockZones[k]
	} else {
		loc = dstZones[k-len(clockZones)]
	}
	t := time.Date(d.Y, time.Month(d.M), d.D, minuteOfDay/60, minuteOfDay%60, second, 0, loc)
	if t.Year() != d.Y || int(t.Month()) != d.M || t.Day() != d.D || t.Hour() != minuteOfDay/60 || t.Minute() != minuteOfDay%60 {
		// a local time that does not exist in that zone (spring-forward gap): use UTC
		t = time.Date(d.Y, time.Month(d.M), d.D, minuteOfDay/60, minuteOfDay%60, second, 0, time.UTC)
	}
	return t
}

// dstZoneOf: the zone whose transition the date is next to.
var dstZoneOf = map[ref.Date]string{
	{Y: 2024, M: 3, D: 30}: "Europe/Berlin", {Y: 2024, M: 3, D: 31}: "Europe/Berlin", {Y: 2024, M: 4, D: 1}: "Europe/Berlin",
	{Y: 2024, M: 10, D: 26}: "Europe/Berlin", {Y: 2024, M: 10, D: 27}: "Europe/Berlin", {Y: 2024, M: 10, D: 28}: "Europe/Berlin",
	{Y: 2024, M: 3, D: 9}: "America/New_York", {Y: 2024, M: 3, D: 10}: "America/New_York", {Y: 2024, M: 3, D: 11}: "America/New_York",
	{Y: 2024, M: 11, D: 2}: "America/New_York", {Y: 2024, M: 11, D: 3}: "America/New_York", {Y: 2024, M: 11, D: 4}: "America/New_York",
	{Y: 2024, M: 4, D: 6}: "Pacific/Auckland", {Y: 2024, M: 4, D: 7}: "Pacific/Auckland", {Y: 2024, M: 4, D: 8}: "Pacific/Auckland",
	{Y: 2024, M: 9, D: 28}: "Pacific/Auckland", {Y: 2024, M: 9, D: 29}: "Pacific/Auckland", {Y: 2024, M: 9, D: 30}: "Pacific/Auckland",
}
var dstByName = map[string]*time.Location{}

// IsDSTDate tells whether the date lies next to a daylight-saving transition of one of the zones.
func IsDSTDate(d ref.Date) bool { _, ok := dstZoneOf[d]; return ok }

// NearMidnight picks a minute of day in the first or last hour of the day (k is any random number).
func NearMidnight(k int) int {
	if k%2 == 0 {
		return (k / 2) % 60
	}
	return 1380 + (k/2)%60
}

// DSTDates are dates around daylight-saving transitions of the zones above (2024).
var DSTDates = []ref.Date{{Y: 2024, M: 3, D: 30}, {Y: 2024, M: 3, D: 31}, {Y: 2024, M: 4, D: 1}, {Y: 2024, M: 10, D: 26}, {Y: 2024, M: 10, D: 27}, {Y: 2024, M: 10, D: 28},
	{Y: 2024, M: 3, D: 9}, {Y: 2024, M: 3, D: 10}, {Y: 2024, M: 3, D: 11}, {Y: 2024, M: 11, D: 2}, {Y: 2024, M: 11, D: 3}, {Y: 2024, M: 11, D: 4},
	{Y: 2024, M: 4, D: 6}, {Y: 2024, M: 4, D: 7}, {Y: 2024, M: 4, D: 8}, {Y: 2024, M: 9, D: 28}, {Y: 2024, M: 9, D: 29}, {Y: 2024, M: 9, D: 30}}
