package obs

import (
	"bytes"
	"os"
	"os/exec"
	"path/filepath"
	"strings"
	"time"

	"github.com/jotaen/klog/klog/app"
	klogmain "github.com/jotaen/klog/klog/app/main"
	"verifharness/core"
)

// CLIEnv describes the environment of one klog invocation.
type CLIEnv struct {
	ConfigDir  string
	Cpus       int
	Theme      string // colour_scheme in config.ini ("" = klog's default, dark)
	ConfigFile string // further config.ini lines
	NoColorEnv bool
	Clock      time.Time
	OnNow      func(c *Ctx)
	OnPrint    func(c *Ctx, s string)
}

// CLIResult is what a user observes from one invocation.
type CLIResult struct {
	Code     int
	Out      string // stdout as printed through app.Context.Print
	Err      string // the error text main() would print
	Panic    *core.PanicInfo
	NowReads int
}

// Failed tells whether the invocation reported failure.
func (r CLIResult) Failed() bool { return r.Code != 0 }

// RunCLI executes `klog args…` in-process on the complete CLI path: kong
// decoding, command, real app.Context (wrapped through hook H3 so that the
// clock is virtual and stdout is captured).
func RunCLI(env CLIEnv, args ...string) (res CLIResult) {
	cfg, err := BuildConfig(CtxOpts{Cpus: env.Cpus, Theme: env.Theme, ConfigFile: env.ConfigFile, NoColorEnv: env.NoColorEnv})
	if err != nil {
		return CLIResult{Code: -1, Err: "harness: " + err.Error()}
	}
	_ = os.MkdirAll(env.ConfigDir, 0755)
	abs, _ := filepath.Abs(env.ConfigDir)
	var wrapped *Ctx
	klogmain.SetVerifContextWrapper(func(inner app.Context) app.Context {
		wrapped = &Ctx{Context: inner, Clock: env.Clock}
		if env.OnNow != nil {
			wrapped.OnNow = func() { env.OnNow(wrapped) }
		}
		if env.OnPrint != nil {
			wrapped.OnPrint = func(s string) { env.OnPrint(wrapped, s) }
		}
		return wrapped
	})
	defer klogmain.SetVerifContextWrapper(nil)
	res.Panic = core.Guard(func() {
		code, rerr := klogmain.Run(app.NewFileOrPanic(abs), app.Meta{Version: "verif", Specification: "spec", License: "license"}, cfg, args)
		res.Code = code
		if rerr != nil {
			res.Err = rerr.Error()
		}
	})
	if wrapped != nil {
		res.Out = wrapped.Out.String()
		res.NowReads = wrapped.NowReads
	}
	return res
}

// BinEnv describes the environment of a real klog process.
type BinEnv struct {
	Bin        string
	ConfigDir  string // KLOG_CONFIG_HOME
	Clock      *time.Time
	NoColor    bool
	Stdin      []byte
	StdoutPath string // if set, the process's standard output is this file (e.g. /dev/full) instead of a pipe
	ExtraEnv   []string
	WorkingDir string
}

// BinResult is the observation of a real process.
type BinResult struct {
	Code   int
	Stdout string
	Stderr string
	Err    error
}

// RunBin runs the real binary. An exit status other than 0 together with no output at all is not something klog does
// (every failure prints a message): on a loaded machine it is the trace of a process that could not run properly, and the
// run is repeated (up to twice) before the result is handed on.
func RunBin(env BinEnv, args ...string) BinResult {
	res := runBinOnce(env, args...)
	for try := 0; try < 2 && res.Err == nil && res.Code != 0 && res.Stdout == "" && res.Stderr == "" && env.StdoutPath == ""; try++ {
		res = runBinOnce(env, args...)
	}
	return res
}

func runBinOnce(env BinEnv, args ...string) BinResult {
	cmd := exec.Command(env.Bin, args...)
	cmd.Env = []string{"KLOG_CONFIG_HOME=" + env.ConfigDir, "HOME=" + env.ConfigDir, "PATH=/usr/bin:/bin", "GOTRACEBACK=all"}
	if env.Clock != nil {
		cmd.Env = append(cmd.Env, "KLOG_VERIF_NOW="+env.Clock.Format(time.RFC3339))
	}
	if env.NoColor {
		cmd.Env = append(cmd.Env, "NO_COLOR=1")
	}
	cmd.Env = append(cmd.Env, env.ExtraEnv...)
	cmd.Dir = env.WorkingDir
	var so, se bytes.Buffer
	cmd.Stdout, cmd.Stderr = &so, &se
	if env.StdoutPath != "" {
		if f, err := os.OpenFile(env.StdoutPath, os.O_WRONLY, 0); err == nil {
			defer f.Close()
			cmd.Stdout = f
		}
	}
	if env.Stdin != nil {
		cmd.Stdin = bytes.NewReader(env.Stdin)
	}
	err := cmd.Run()
	res := BinResult{Stdout: so.String(), Stderr: se.String()}
	if ee, ok := err.(*exec.ExitError); ok {
		res.Code = ee.ExitCode()
	} else if err != nil {
		res.Err = err
		res.Code = -1
	}
	return res
}

// LooksLikeGoCrash tells whether process output contains a Go panic / fatal error trace.
func LooksLikeGoCrash(s string) bool {
	return strings.Contains(s, "panic: ") || strings.Contains(s, "fatal error: ") || strings.Contains(s, "goroutine 1 [") || strings.Contains(s, "[signal SIG")
}
