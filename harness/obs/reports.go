package obs

import (
	"bytes"
	"encoding/json"
	"fmt"
	"io"
	"regexp"
	"strconv"
	"strings"
)

// TermError is one error block of klog's terminal syntax-error report.
type TermError struct {
	Line    int
	File    string
	Quoted  string // the quoted source line (tabs already replaced by spaces)
	Pos     int    // number of blanks in front of the carets
	Len     int    // number of carets
	Message string // reflowed message, whitespace-normalised
}

var termHeaderRe = regexp.MustCompile(`^\[SYNTAX ERROR\] in line (\d+)( of file (.*))?$`)

// ParseTermErrors parses the (SGR-stripped) text of a syntax error report.
// It is strict: any deviation from the documented shape is an error.
func ParseTermErrors(report string) ([]TermError, error) {
	lines := strings.Split(report, "\n")
	var out []TermError
	i := 0
	for i < len(lines) {
		if lines[i] == "" {
			i++
			continue
		}
		m := termHeaderRe.FindStringSubmatch(lines[i])
		if m == nil {
			return out, fmt.Errorf("line %d of the report is not an error header: %q", i+1, lines[i])
		}
		var te TermError
		te.Line, _ = strconv.Atoi(m[1])
		te.File = m[3]
		if i+2 >= len(lines) {
			return out, fmt.Errorf("report ends after the header of error #%d", len(out)+1)
		}
		q, c := lines[i+1], lines[i+2]
		if !strings.HasPrefix(q, "    ") || !strings.HasPrefix(c, "    ") {
			return out, fmt.Errorf("quoted line / caret line of error #%d are not indented by four blanks: %q / %q", len(out)+1, q, c)
		}
		te.Quoted = q[4:]
		c = c[4:]
		sp := 0
		for sp < len(c) && c[sp] == ' ' {
			sp++
		}
		rest := c[sp:]
		if strings.Trim(rest, "^") != "" {
			return out, fmt.Errorf("caret line of error #%d contains other characters: %q", len(out)+1, lines[i+2])
		}
		te.Pos, te.Len = sp, len(rest)
		i += 3
		var msg []string
		for i < len(lines) && strings.HasPrefix(lines[i], "    ") && !termHeaderRe.MatchString(lines[i]) {
			msg = append(msg, strings.TrimSpace(lines[i]))
			i++
		}
		te.Message = strings.Join(strings.Fields(strings.Join(msg, " ")), " ")
		out = append(out, te)
	}
	return out, nil
}

// DecodeJSON decodes exactly one JSON document and rejects trailing data.
func DecodeJSON(data []byte) (any, error) {
	dec := json.NewDecoder(bytes.NewReader(data))
	dec.UseNumber()
	var v any
	if err := dec.Decode(&v); err != nil {
		return nil, err
	}
	// only whitespace may follow
	rest, _ := io.ReadAll(dec.Buffered())
	if len(bytes.TrimSpace(rest)) != 0 {
		return nil, fmt.Errorf("trailing data after the JSON document: %q", truncate(string(rest), 80))
	}
	var extra any
	if err := dec.Decode(&extra); err != io.EOF {
		return nil, fmt.Errorf("more than one JSON document / trailing data")
	}
	return v, nil
}

func truncate(s string, n int) string {
	if len(s) > n {
		return s[:n] + "…"
	}
	return s
}

// JInt reads an integer field of a decoded JSON object.
func JInt(o map[string]any, key string) (int, bool) {
	n, ok := o[key].(json.Number)
	if !ok {
		return 0, false
	}
	v, err := n.Int64()
	return int(v), err == nil
}

func JStr(o map[string]any, key string) (string, bool) {
	s, ok := o[key].(string)
	return s, ok
}

func JArr(o map[string]any, key string) ([]any, bool) {
	a, ok := o[key].([]any)
	return a, ok
}
