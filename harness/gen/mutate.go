package gen

import (
	"strings"

	"verifharness/core"
	"verifharness/ref"
)

// Mutant is a document with one rule-violating edit.
type Mutant struct {
	Text     string
	Rule     string // operator name
	Line     int    // 0-based physical line the operator expects to be the first non-conforming one
	PosClass string // first/middle/last line, first/middle/last record …
}

type srcLine struct {
	text, eol string
}

func splitSrc(text string) []srcLine {
	var out []srcLine
	for _, l := range ref.SplitLines(text) {
		out = append(out, srcLine{l.Text, l.Ending})
	}
	return out
}

func joinSrc(ls []srcLine) string {
	var sb strings.Builder
	for _, l := range ls {
		sb.WriteString(l.text)
		sb.WriteString(l.eol)
	}
	return sb.String()
}

var badDates = []string{"2020-13-01", "2020-00-10", "2020-01-00", "2020-02-30", "1900-02-29", "2021-02-29", "2020-04-31", "2020-1-01", "2020-01-1", "20200101", "2020-01/01", "2020/01-01",
	"20-01-01", "02020-01-01", "2020.01.01", "2020-01-01x", "x2020-01-01", "2020-01-32", "abcd-01-01", "2020-0a-01", "2020-01-011", "2020_01_01", "2020-01-01-", "-2020-01-01", "2020–01–01", "٢٠٢٠-01-01",
	"\ufeff2020-01-01", "\u200b2020-01-01", "2020-01-01\u200b", "\u20602020-01-01", "2020\u00ad-01-01", "２０２０-01-01"}

var badHeadlineTails = []string{" foo", " (8h)", " 8h!", " (8h!) x", " (8h!)x", " (!)", " ()", " (8h!", " 8h!)", " (8x!)", " (8h!!)", " (1h60m!)", " (8h! 7h!)", "(8h!)", " [8h!]", " (8h!) (7h!)", " #tag", " (8:00!)", " (eight!)", " (9223372036854775807h!)", "\u00a0(8h!)", " (8h!)\u00a0x", " (\u00a08h!)", " (8h\u2021)", " \u01288h!\u0129", "\u2020(8h!)", "(8h!)", " (  8h! x)", " (   ab)", " (  x)", " (     )", " (\t8h! y)", " ( 8h!  )x", " (  8h!", " (   "}

var badValues = []string{"9223372036854775807h", "99999999999999999999h", "-9223372036854775808m", "153722867280912930h08m", "1h\u00a0note", "8:00\u2003-\u20039:00", "8:00 - 9:00\u3000note", "8:00\u00a0- ?", "8:00\u2020-\u20209:00", "8:00\u0120- ?", "8\u013a00 - 9:00", "8:00 \u012d 9:00", "1\u0168", "30\u016d", "\u0131:00 - 2:00", "8:00 - \u013f", "8:30AM - 9:00AM", "1:15Pm - 2:00pm", "8:00 - 6:00PM", "<11:00pM - 1:00am", "6:00AM> - ?", "8:00am - ?PM", "1H", "1h30M", "8:0 - 9:00", "25:00 - 26:00", "24:01 - 24:02", "13:00pm - 2:00pm", "0:30am - 1:00am", "<8:00> - 9:00", "24:00> - 1:00>", "8:60 - 9:00", "8:00 9:00", "8:00 -", "8:00 - ", "8:00 - ?>", "8:00 - <?",
	"8:00 - ?x", "8:00 – 9:00", "8:00 -- 9:00", "8.00 - 9.00", "8h00 - 9h00", "800 - 900", "8:00am-", "1h60m", "h", "1m1h", "1.5h", "1,5h", "1hm", "5", "1h5", "−1h", "+-1h", "1h1h", "one hour", "8:00 - 9:00pmx",
	"8:00\t-\t9:00", "8:00 -\t9:00", "8:00 \t- 9:00", "8:00-\t9:00", "8:00 -\t?", "8:00 \t-?", "8:00am-\t1:00pm", "8:00 - \t9:00", "8:00 - 9:00>>", "<<8:00 - 9:00", "8:00 - 9:0", "8:000 - 9:00", "008:00 - 9:00", "8:00 - 24:00>", "12:00am - 13:00am", "#tag", "- 1h", "?", "? - 9:00", "8:00 - ? - ?",
	"+8:00 - 9:00", "8:00 - 9:+5", "8:+0 - 9:00", "+9:00 - ?", "<23:00 - -0:30", "-0:30 - 1:00", "8:00 - +9:00", "8:-0 - 9:00", "+8:00am - 9:00am", "0:+1 - ?", "8:00 - 9: 5", "8: 0 - 9:00"}

// posClass names the position of index i among n.
func posClass(i, n int) string {
	switch {
	case n <= 1:
		return "only"
	case i == 0:
		return "first"
	case i == n-1:
		return "last"
	}
	return "middle"
}

// Mutate applies one rule-violating edit. ok is false if the operator does not
// apply to this document (e.g. no entries).
func Mutate(r *core.Rand, o *Out) (m Mutant, ok bool) {
	ls := splitSrc(o.Text)
	if len(ls) != len(o.Lines) {
		// a missing final newline does not change the line count; anything else is a generator bug
		return m, false
	}
	// index lines by kind
	var heads, sums, entries, conts []int
	for i, li := range o.Lines {
		switch li.Kind {
		case LHeadline:
			heads = append(heads, i)
		case LRecSummary:
			sums = append(sums, i)
		case LEntry:
			entries = append(entries, i)
		case LEntryCont:
			conts = append(conts, i)
		}
	}
	if len(heads) == 0 {
		return m, false
	}
	nrec := len(o.Doc.Recs)
	pick := func(xs []int) (int, bool) {
		if len(xs) == 0 {
			return 0, false
		}
		// bias to first and last
		switch r.Intn(4) {
		case 0:
			return xs[0], true
		case 1:
			return xs[len(xs)-1], true
		}
		return xs[r.Intn(len(xs))], true
	}
	filePos := func(line int) string {
		c := posClass(line, len(ls))
		if c == "last" && ls[line].eol == "" {
			c = "last-no-newline"
		}
		return c + "-line"
	}
	set := func(rule string, line int) {
		m.Rule, m.Line = rule, line
		m.Text = joinSrc(ls)
		if line < len(ls) {
			m.PosClass = recPos2(o, ls, line, nrec) + "/" + filePos(line)
		}
		ok = true
	}
	indentOf := func(rec int) string { return o.Layouts[rec].Indent }
	insertAfter := func(i int, l srcLine) {
		// the new line takes the ending of line i; if line i had none (end of file), it gains one
		if ls[i].eol == "" {
			oi := i
			if oi >= len(o.Lines) {
				oi = len(o.Lines) - 1 // a line inserted by this operator: the layout of the last original line
			}
			ls[i].eol = o.Layouts[maxInt(o.Lines[oi].Rec, 0)].EOL
			l.eol = ""
		} else if l.eol == "" {
			l.eol = ls[i].eol
		}
		ls = append(ls[:i+1], append([]srcLine{l}, ls[i+1:]...)...)
	}

	switch op := r.Intn(20); op {
	case 0: // malformed / non-Gregorian date
		i, _ := pick(heads)
		old := ls[i].text
		rest := ""
		if k := strings.IndexAny(old, " \t"); k >= 0 {
			rest = old[k:]
		}
		ls[i].text = badDates[r.Intn(len(badDates))] + rest
		set("bad-date", i)
	case 1: // extra text in headline
		i, _ := pick(heads)
		base := ls[i].text
		if k := strings.IndexAny(base, " \t"); k >= 0 {
			base = base[:k]
		}
		ls[i].text = base + badHeadlineTails[r.Intn(len(badHeadlineTails))]
		set("headline-extra-text", i)
	case 2: // indented headline
		i, _ := pick(heads)
		ls[i].text = r.Pick(" ", "  ", "\t", "    ") + ls[i].text
		set("indented-headline", i)
	case 3: // wrong indentation width on an entry
		i, has := pick(entries)
		if !has {
			return m, false
		}
		ind := indentOf(o.Lines[i].Rec)
		body := ls[i].text[len(ind):]
		var bad string
		switch ind {
		case "    ":
			bad = r.Pick(" ", "     ", "      ", "   ", "  ", "\t", " \t", "  \t")
		case "   ":
			bad = r.Pick(" ", "    ", "     ", "  ", "\t", " \t")
		case "  ":
			bad = r.Pick(" ", "   ", "\t", " \t", "     ")
		default:
			bad = r.Pick(" ", "  ", "    ", " \t", "   ")
		}
		ls[i].text = bad + body
		set("wrong-indentation", i)
	case 4: // entry without indentation
		i, has := pick(entries)
		if !has {
			return m, false
		}
		ind := indentOf(o.Lines[i].Rec)
		ls[i].text = ls[i].text[len(ind):]
		set("missing-indentation", i)
	case 5: // malformed value
		i, has := pick(entries)
		if !has {
			return m, false
		}
		ind := indentOf(o.Lines[i].Rec)
		tail := ""
		if r.Bool() {
			tail = " " + plainWords[r.Intn(len(plainWords))]
		}
		ls[i].text = ind + badValues[r.Intn(len(badValues))] + tail
		set("bad-entry-value", i)
	case 6: // reversed range
		i, has := pick(entries)
		if !has {
			return m, false
		}
		ind := indentOf(o.Lines[i].Rec)
		a := GenTime(r, -1439, 2879, true)
		b := GenTime(r, -1440, a.Off-1, true)
		ls[i].text = ind + ref.FormatTime(a) + r.Pick(" - ", "-", " -", "- ") + ref.FormatTime(b)
		set("reversed-range", i)
	case 7: // second open range
		var cands []int
		for _, i := range entries {
			li := o.Lines[i]
			if o.Doc.Recs[li.Rec].OpenIndex() >= 0 {
				cands = append(cands, i)
			}
		}
		if len(cands) == 0 {
			// create two open ranges in some record with an entry
			i, has := pick(entries)
			if !has {
				return m, false
			}
			ind := indentOf(o.Lines[i].Rec)
			ls[i].text = ind + "8:00 - ?"
			// append after the last line of this entry
			j := i
			for j+1 < len(o.Lines) && o.Lines[j+1].Kind == LEntryCont {
				j++
			}
			insertAfter(j, srcLine{text: ind + "9:00 - ??? again"})
			set("second-open-range", j+1)
			return m, ok
		}
		i := cands[r.Intn(len(cands))]
		rec := o.Lines[i].Rec
		openEnt := o.Doc.Recs[rec].OpenIndex()
		ind := indentOf(rec)
		// insert after the entry line i (and its continuation lines)
		j := i
		for j+1 < len(o.Lines) && o.Lines[j+1].Kind == LEntryCont {
			j++
		}
		insertAfter(j, srcLine{text: ind + "10:00-?"})
		// the first non-conforming line is the later one of the two open ranges
		expect := j + 1
		if o.Lines[i].Ent < openEnt {
			// inserted before the original open range → the original one becomes the second
			for k := j + 1; k < len(o.Lines); k++ {
				if o.Lines[k].Kind == LEntry && o.Lines[k].Rec == rec && o.Lines[k].Ent == openEnt {
					expect = k + 1 // shifted by the insertion
					break
				}
			}
		}
		set("second-open-range", expect)
	case 8: // record summary line starting with a blank character
		i, has := pick(sums)
		if !has {
			return m, false
		}
		ls[i].text = r.Pick(" ", " ", "　", " ", " \t", "  ") + ls[i].text
		set("summary-leading-blank", i)
	case 9: // blank line inside a record
		var cands []int
		for i := range o.Lines {
			if i+1 < len(o.Lines) && o.Lines[i].Rec >= 0 && o.Lines[i+1].Rec == o.Lines[i].Rec {
				cands = append(cands, i)
			}
		}
		if len(cands) == 0 {
			return m, false
		}
		i := cands[r.Intn(len(cands))]
		insertAfter(i, srcLine{text: r.Pick("", "", " ", "\t", "    ")})
		set("blank-line-inside-record", i+2)
	case 10: // stray text block between records or at the ends
		i, _ := pick(heads)
		stray := r.Pick("foo", "TODO remember", "Total: 8h", "----", "# comment", "1h", "8:00 - 9:00", "// note", "notes:", "(8h!)")
		// put it in front of the record, separated by blank lines on both sides
		newLines := []srcLine{{stray, "\n"}, {"", "\n"}}
		ls = append(ls[:i], append(newLines, ls[i:]...)...)
		set("stray-text", i)
	case 11: // continuation line consisting only of blanks other than space/tab
		i, has := pick(entries)
		if !has {
			return m, false
		}
		ind := indentOf(o.Lines[i].Rec)
		j := i
		for j+1 < len(o.Lines) && o.Lines[j+1].Kind == LEntryCont {
			j++
		}
		insertAfter(j, srcLine{text: ind + ind + r.Pick(" ", "　", "  ", " \t", "  ")})
		set("blank-continuation-line", j+1)
	case 12: // doubly indented line directly after the headline / record summary
		var cands []int
		for _, h := range heads {
			rec := o.Lines[h].Rec
			if len(o.Doc.Recs[rec].Entries) == 0 {
				cands = append(cands, h)
			}
		}
		if len(cands) == 0 {
			return m, false
		}
		h := cands[r.Intn(len(cands))]
		j := h
		for j+1 < len(o.Lines) && o.Lines[j+1].Kind == LRecSummary {
			j++
		}
		ind := indentOf(o.Lines[h].Rec)
		insertAfter(j, srcLine{text: ind + ind + "orphan continuation"})
		// with a 2-space record, 4 spaces are a legal first-level indentation → text is an entry value error either way
		set("orphan-continuation", j+1)
	case 13: // shifted / decorated placeholder
		i, has := pick(entries)
		if !has {
			return m, false
		}
		ind := indentOf(o.Lines[i].Rec)
		if o.Doc.Recs[o.Lines[i].Rec].OpenIndex() >= 0 && o.Doc.Recs[o.Lines[i].Rec].OpenIndex() != o.Lines[i].Ent {
			return m, false
		}
		ls[i].text = ind + r.Pick("8:00 - ?>", "8:00 - <?", "8:00-?>", "<8:00 - ?>", "8:00 - ?am", "8:00 - ??>") + r.Pick("", " x")
		set("shifted-placeholder", i)
	case 14: // mixed indentation style inside a record (second entry uses another style)
		var cands []int
		for _, i := range entries {
			if o.Lines[i].Ent >= 1 {
				cands = append(cands, i)
			}
		}
		if len(cands) == 0 {
			return m, false
		}
		i := cands[r.Intn(len(cands))]
		ind := indentOf(o.Lines[i].Rec)
		var other string
		switch ind {
		case "    ":
			other = r.Pick("  ", "   ", "\t")
		case "   ":
			other = r.Pick("  ", "\t", "    ")
		case "  ":
			other = r.Pick("\t", "   ")
		default:
			other = r.Pick("  ", "   ", "    ")
		}
		ls[i].text = other + ls[i].text[len(ind):]
		set("mixed-indentation", i)
	case 17: // two faults in ONE record: a second open range and, further down, a malformed entry (errors must stay in line order)
		var cands []int
		for _, i := range entries {
			li := o.Lines[i]
			rc := o.Doc.Recs[li.Rec]
			if rc.OpenIndex() == li.Ent && li.Ent < len(rc.Entries)-1 {
				cands = append(cands, i)
			}
		}
		if len(cands) == 0 {
			return m, false
		}
		i := cands[r.Intn(len(cands))]
		rec := o.Lines[i].Rec
		ind := indentOf(rec)
		j := i
		for j+1 < len(o.Lines) && o.Lines[j+1].Kind == LEntryCont {
			j++
		}
		// after the open range (and its continuation lines): another open range with its own continuation line, then a bad value on the record's last entry
		last := j
		for k := j + 1; k < len(o.Lines) && o.Lines[k].Rec == rec; k++ {
			last = k
		}
		lastEntry := last
		for lastEntry > j && o.Lines[lastEntry].Kind != LEntry {
			lastEntry--
		}
		if lastEntry <= j {
			return m, false
		}
		ls[lastEntry].text = ind + r.Pick("25:00 - 26:00", "1h60m", "garbage", "8:00 -")
		for k := lastEntry + 1; k <= last; k++ {
			ls[k].text = ind + ind + "x" // keep continuation lines harmless
		}
		insertAfter(j, srcLine{text: ind + "11:00 - ?? second"})
		insertAfter(j+1, srcLine{text: ind + ind + "with a continuation line"})
		set("second-open-range-then-bad-entry", j+1)
	case 16: // stray carriage return at the end of a headline or of an entry's value (not part of a CRLF)
		var cands []int
		for _, h := range heads {
			cands = append(cands, h)
		}
		for _, i := range entries {
			li := o.Lines[i]
			if sm := o.Doc.Recs[li.Rec].Entries[li.Ent].Summary; len(sm) > 0 && sm[0] == "" {
				cands = append(cands, i)
			}
		}
		i := cands[r.Intn(len(cands))]
		if strings.HasSuffix(ls[i].text, " ") || strings.HasSuffix(ls[i].text, "\t") {
			return m, false
		}
		ls[i].text += r.Pick("\r", "\r\r", "\r")
		set("stray-carriage-return", i)
	case 18: // the same faulty entry line twice in a row in ONE record (each fault has its own line)
		i, has := pick(entries)
		if !has {
			return m, false
		}
		ind := indentOf(o.Lines[i].Rec)
		j := i
		for j+1 < len(o.Lines) && o.Lines[j+1].Kind == LEntryCont {
			j++
		}
		bad := ind + r.Pick("25:00 - 26:00", "1h60m", "garbage", "8:00 -", "9:00 - 8:00", "8:60 - 9:00 note", "1.5h") + r.Pick("", " same", " #dup")
		ls[i].text = bad
		for k := i + 1; k <= j; k++ {
			ls[k].text = ind + ind + "x"
		}
		insertAfter(j, srcLine{text: bad})
		if r.Bool() {
			insertAfter(j+1, srcLine{text: bad})
		}
		set("same-faulty-line-twice", i)
	case 19: // the same open range twice in ONE record, letter for letter: the second one is the fault
		var cands []int
		for _, i := range entries {
			if o.Doc.Recs[o.Lines[i].Rec].OpenIndex() < 0 {
				cands = append(cands, i)
			}
		}
		if len(cands) == 0 {
			return m, false
		}
		i := cands[r.Intn(len(cands))]
		ind := indentOf(o.Lines[i].Rec)
		j := i
		for j+1 < len(o.Lines) && o.Lines[j+1].Kind == LEntryCont {
			j++
		}
		open := ind + r.Pick("8:00 - ?", "8:00-?", "9:15 - ??? again", "<23:00 - ? #t", "1:00pm - ?")
		insertAfter(j, srcLine{text: open})
		if r.Bool() {
			insertAfter(j+1, srcLine{text: ind + r.Pick("1h", "-15m break", "10:00 - 11:00")})
			insertAfter(j+2, srcLine{text: open})
			set("same-open-range-twice", j+3)
		} else {
			insertAfter(j+1, srcLine{text: open})
			set("same-open-range-twice", j+2)
		}
	case 15: // duplicate the headline inside the record (extra text block without blank line)
		i, has := pick(entries)
		if !has {
			return m, false
		}
		j := i
		for j+1 < len(o.Lines) && o.Lines[j+1].Kind == LEntryCont {
			j++
		}
		insertAfter(j, srcLine{text: r.Pick("2020-01-01", "foo", "Total")})
		set("unindented-line-after-entries", j+1)
	}
	return m, ok
}

func recPos2(o *Out, ls []srcLine, line, nrec int) string {
	// find the record the (possibly shifted) line belongs to: count headlines up to it
	rec := -1
	for i := 0; i <= line && i < len(ls); i++ {
		if _, _, ok := ref.ParseDate(firstToken(ls[i].text)); ok && (i == 0 || ref.IsBlankST(ls[i-1].text)) {
			rec++
		}
	}
	if rec < 0 {
		rec = 0
	}
	return posClass(rec, maxInt(nrec, rec+1)) + "-record"
}

func firstToken(s string) string {
	if k := strings.IndexAny(s, " \t"); k >= 0 {
		return s[:k]
	}
	return s
}

func maxInt(a, b int) int {
	if a > b {
		return a
	}
	return b
}
