package gen

import (
	"strings"

	"verifharness/core"
)

// Tokens is the alphabet of klog fragments for exhaustive short-string enumeration.
var Tokens = []string{
	"2024-03-15", "2024/03/14", "0000-01-01", "9999-12-31", "\n", "\r\n", "\r", "  ", "   ", "    ", "\t", " ",
	"1h", "30m", "-", "+", "?", "8:00", "23:59", "24:00", "12:30am", "<", ">", "(", "!", ")", "#a", "=", "\"", "'",
	" ", "読", "\xff", "\x00", "99999999999999999999", "9223372036854775807", "999999999999999999", "153722867280912931", "h", "m", ":", "0", "x", "%s", "�",
}

// TokenString returns the k-th string of exactly n tokens.
func TokenString(n int, k int64) string {
	var sb strings.Builder
	idx := make([]int, n)
	for i := n - 1; i >= 0; i-- {
		idx[i] = int(k % int64(len(Tokens)))
		k /= int64(len(Tokens))
	}
	for _, i := range idx {
		sb.WriteString(Tokens[i])
	}
	return sb.String()
}

// TokenCount is len(Tokens)^n.
func TokenCount(n int) int64 {
	c := int64(1)
	for i := 0; i < n; i++ {
		c *= int64(len(Tokens))
	}
	return c
}

// MutateBytes applies byte-level noise to a text.
func MutateBytes(r *core.Rand, text string) string {
	b := []byte(text)
	n := r.Range(1, 4)
	for k := 0; k < n; k++ {
		switch r.Intn(10) {
		case 0: // flip
			if len(b) > 0 {
				b[r.Intn(len(b))] ^= byte(1 << r.Intn(8))
			}
		case 1: // insert token
			pos := r.Intn(len(b) + 1)
			tok := Tokens[r.Intn(len(Tokens))]
			b = append(b[:pos], append([]byte(tok), b[pos:]...)...)
		case 2: // delete range
			if len(b) > 1 {
				i := r.Intn(len(b))
				j := i + r.Range(1, 5)
				if j > len(b) {
					j = len(b)
				}
				b = append(b[:i], b[j:]...)
			}
		case 3: // splice a slice of itself elsewhere
			if len(b) > 4 {
				i := r.Intn(len(b) - 2)
				j := i + r.Range(1, min(len(b)-i, 40))
				pos := r.Intn(len(b) + 1)
				chunk := append([]byte(nil), b[i:j]...)
				b = append(b[:pos], append(chunk, b[pos:]...)...)
			}
		case 4: // truncate (possibly in the middle of a rune)
			if len(b) > 1 {
				b = b[:r.Intn(len(b))]
			}
		case 5: // random byte
			if len(b) > 0 {
				b[r.Intn(len(b))] = byte(r.Intn(256))
			}
		case 6: // huge number in front of an h/m
			if i := strings.IndexAny(string(b), "hm"); i > 0 {
				num := r.Pick("99999999999999999999", "9223372036854775807", "153722867280912930", "153722867280912931", "999999999999999999", "9223372036854775808", "00000000000000000000001", "1000000000")
				b = append(b[:i], append([]byte(num), b[i:]...)...)
			}
		case 7: // swap line endings
			s := string(b)
			if r.Bool() {
				s = strings.ReplaceAll(s, "\n", "\r")
			} else {
				s = strings.Replace(s, "\n", "\r\n", 1+r.Intn(3))
			}
			b = []byte(s)
		case 8: // duplicate a line
			ls := strings.SplitAfter(string(b), "\n")
			if len(ls) > 0 {
				i := r.Intn(len(ls))
				ls = append(ls[:i+1], ls[i:]...)
				b = []byte(strings.Join(ls, ""))
			}
		case 9: // replace a blank with another blank-ish character
			if i := strings.IndexAny(string(b), " \t"); i >= 0 {
				rep := r.Pick(" ", "\t", "　", "", "  ", " ")
				b = append(b[:i], append([]byte(rep), b[i+1:]...)...)
			}
		}
	}
	return string(b)
}

// RawBytes returns n PRNG bytes, biased towards klog's syntax characters.
func RawBytes(r *core.Rand, n int) string {
	const alpha = "0123456789-/:<>?!()#= \t\n\r hm+ampxyz\"'"
	b := make([]byte, n)
	for i := range b {
		if r.Chance(3, 4) {
			b[i] = alpha[r.Intn(len(alpha))]
		} else {
			b[i] = byte(r.Intn(256))
		}
	}
	return string(b)
}

func min(a, b int) int {
	if a < b {
		return a
	}
	return b
}
