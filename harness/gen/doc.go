// Package gen generates klog documents together with the data they denote
// (model known by construction), rule-violating mutants, hostile byte strings
// and command histories.
package gen

import (
	"fmt"
	"strings"

	"verifharness/core"
	"verifharness/ref"
)

// Opts steer the document generator.
type Opts struct {
	MaxRecs        int       // 0 = default 6
	MinRecs        int       // default 0
	MaxEntries     int       // default 5
	Near           *ref.Date // if set, most dates lie within a few days of this date
	NearSpread     int       // days around Near (default 3)
	Sorted         bool      // ascending dates
	NoDupDates     bool
	Unicode        bool // non-ASCII text in summaries
	Tags           int  // 0 none, 1 some, 2 many
	Hostile        bool // hostile but admissible layout (whitespace-only lines, mixed line endings, missing final newline, leading/trailing blank lines)
	OpenRanges     int  // 0 none, 1 sometimes (at most one per record)
	LookAlikes     bool // summaries that look like entries, dates, placeholders, printf verbs
	JSONHostile    bool // characters JSON must escape
	TrailingBlank  bool // summaries may end in / consist of blanks
	IDs            bool // every record/entry summary carries a unique id token
	MaxHours       int  // bound for duration entries (default 30)
	YearLo, YearHi int  // date range (default 0..9999 boundary-biased)
	PlainLayout    bool // LF, final newline, single blank separators
	Should         int  // 0 sometimes, 1 never, 2 always
	Short          bool // short summaries (small texts for boundary sweeps)
}

// LineKind classifies a physical line of a generated document.
type LineKind int

const (
	LBlank LineKind = iota
	LHeadline
	LRecSummary
	LEntry
	LEntryCont
)

// LineInfo describes one physical line.
type LineInfo struct {
	Kind LineKind
	Rec  int
	Ent  int
}

// RecLayout is the layout a record was rendered with.
type RecLayout struct {
	Indent string
	EOL    string
}

// Out is a generated document.
type Out struct {
	Text    string
	Doc     *ref.Doc
	Lines   []LineInfo
	Layouts []RecLayout
	Feat    map[string]bool // features present (crlf, mixed_eol, no_final_newline, ws_only_lines, shifted, h12, h24_00, multi_line_summary, unicode, tags, open_range, neg_duration, dup_dates, unsorted …)
}

func (o *Out) feat(name string) { o.Feat[name] = true }

var plainWords = []string{"work", "meeting", "lunch", "call", "with", "the", "team", "review", "fix", "bug", "deploy", "docs", "email", "break", "planning", "Q3", "v2.1", "and", "on", "for", "at", "https://klog.example/docs?a=1"}
var unicodeWords = []string{"café", "naïve", "日本語", "读书", "Ünïcödé", "emoji😀", "Ελληνικά", "кофе", "ñandú", "é", "zero​width", "nb sp", "—dash—", "½", "ﬂuff", "bom\ufeffinside", "\ufefflead", "zw\u200bsp", "\u2060wj",
	// letters whose lower-case form has another length in UTF-8, signs that are letters, a title-case letter
	"İstanbul", "\u212aelvin", "Ⱥbc", "Ⱦx", "GROẞ", "\u2126hm", "\u212bngström", "ǅ"}
var lookAlikeWords = []string{"8:00", "-", "9:00", "1h", "-5m", "?", "??", "2020-01-01", "(8h!)", "8:00-?", "<23:00", "0:30>", "100%", "%d", "%s", "%!", "50%o", "12:00am", "#", "#=", "=x", "a#b", "--flag", "\\-45m", "\\n", "24:00", "30m", "45m", "5m", "0m", "1h30m", "15:00", "http://x.io/#top", "https://example.com/a_(b)", "www.example.com", "mailto:me@example.com"}
var jsonWords = []string{"\"quoted\"", "back\\slash", "a/b", "<tag>", "&amp;", "tab\there", " ", " ", "ctl\u0001x", "\u007f", "𝔘𝔫𝔦", "'single'", "{json}", "[1,2]", "\\u0041", "\b", "\f", "é\"\\",
	// the spellings an encoder itself produces, as literal text (backslash, u, four hex digits; backslash + letter)
	"\\u003c", "C:\\users\\u003e", "\\u0026amp", "\\u2028", "\\\\", "\\\"", "\\t", "\\/", "\u2028", "\u2029", "</script>",
	// text pasted from a coloured terminal: complete escape sequences are data like any other character
	"\x1b[1;31mURGENT\x1b[0m", "\x1b[0m", "\x1b[2J", "\x1b[38;5;208mwarn", "\x1b]8;;http://x\x1b\\", "\x1b[31"}
var tagShapes = []string{"#work", "#Work", "#WORK", "#home-office", "#under_score", "#读书", "#Ünï", "#ticket=891", "#ticket=892", "#project=\"22/48.3\"", "#call='Liz Jones'", "#a=1", "#a=2", "#a", "#A=1", "#empty=", "#q=\"\"", "#open=\"unterminated", "#x=y-z", "#mix='it\"s'", "#n=\"it's\"", "#t1", "#t2", "#t3", "#dup", "#dup=v", "#dup=V", "#ort=köln", "#ort=zürich", "#city=\"São Paulo\"", "#名前=値", "#tag=\"日本 語\"", "#emoji=\"😀 ok\"", "#size='5\"'", "#q=\"'tis\"", "#x=\"'\"", "#status= open", "#prio=",
	// names that extend another name by a character sorting before '=' or after it (row grouping in `tags --values`)
	"#dup-x", "#dup2", "#dup_x=v", "#a-b", "#a1=3", "#ticket-open", "#ticket2=1", "#t1-a=v", "#t1=w", "#t10",
	// long names and values in scripts with multi-byte letters (more bytes than characters), characters of category Sk, a backslash in front of the closing quote
	"#длинноеназваниетегапроекта", "#这是一个非常长的标签名称用于测试", "#προγραμματισμόςκαιανάπτυξη=\"μεγάληαξίαγιατηνετικέταμας\"", "#topic=\"x^2 + y^2\"", "#cmd='`ls -la`'", "#dir=\"C:\\\"", "#p='a\\\"b'", "#ticket=12", "#ticket",
	// tags may appear anywhere within a summary: glued to punctuation or to other text
	"(#work,", "(#t1)", "pairing/#t2", "#t1,#t2", "[#dup=v]", "issue#12", "#gym#sauna", "über#t3", "«#work»", "x:#a=1;", "\"#t2\"", "—#ticket=891",
	// letters whose UTF-8 encoding contains a byte that is a control code of its own in 8-bit terminals (0x9B CSI, 0x9D OSC, 0x90 DCS, 0x85 NEL)
	"#śniadanie", "#město=\"Plzeň\"", "#Лето", "#ŝanĝo=ĝusta", "#Őr=ą", "#țară",
	// title-case letters (neither upper nor lower case) next to their lower- and upper-case spellings; names that differ in leading zeros only;
	// quoted values made of letters and digits of other scripts (decimal digits that are not ASCII digits)
	"#ǅungla", "#ǆungla", "#ǄUNGLA=x", "#ǈeto", "#sprint07=a", "#sprint7=b", "#sprint07", "#sprint7", "#room-01=x", "#room-1=y",
	"#ticket=\"１２３\"", "#room=\"٣٠٤\"", "#ref=\"A-४२_b\"", "#v='v２'"}

// word returns one summary word according to the options.
func word(r *core.Rand, o *Opts, out *Out) string {
	k := r.Intn(100)
	switch {
	case o.Tags > 0 && o.JSONHostile && k < 3:
		out.feat("tags")
		return r.Pick("#colour=\"\x1b[31\"", "#c='\x1b[1;3'", "#esc=\"\x1b[0m\"", "#e=\"\x1b[\"", "#bell=\"\x07\"")
	case o.Tags > 0 && k < 12*o.Tags:
		out.feat("tags")
		return tagShapes[r.Intn(len(tagShapes))]
	case o.Unicode && k < 45:
		out.feat("unicode")
		return unicodeWords[r.Intn(len(unicodeWords))]
	case o.LookAlikes && k < 60:
		out.feat("look_alikes")
		return lookAlikeWords[r.Intn(len(lookAlikeWords))]
	case o.JSONHostile && k < 80:
		out.feat("json_hostile")
		return jsonWords[r.Intn(len(jsonWords))]
	}
	return plainWords[r.Intn(len(plainWords))]
}

func phrase(r *core.Rand, o *Opts, out *Out, minWords, maxWords int) string {
	if o.Short && maxWords > 2 {
		maxWords = 2
	}
	n := r.Range(minWords, maxWords)
	ws := make([]string, 0, n)
	for i := 0; i < n; i++ {
		ws = append(ws, word(r, o, out))
	}
	sep := " "
	if r.Chance(1, 12) {
		sep = "  "
	}
	return strings.Join(ws, sep)
}

func startsBlank(s string) bool {
	for _, c := range s {
		return c == ' ' || c == '\t' || ref.IsBlankSpec(string(c))
	}
	return true
}

// genDate draws a date, biased to period boundaries.
func genDate(r *core.Rand, o *Opts) ref.Date {
	if o.Near != nil {
		sp := o.NearSpread
		if sp == 0 {
			sp = 3
		}
		if !r.Chance(1, 8) {
			d := o.Near.Days() + r.Range(-sp, sp)
			if d < ref.MinDay {
				d = ref.MinDay
			}
			if d > ref.MaxDay {
				d = ref.MaxDay
			}
			return ref.DateFromDays(d)
		}
	}
	lo, hi := o.YearLo, o.YearHi
	if hi == 0 {
		lo, hi = 0, 9999
	}
	var y int
	switch r.Intn(10) {
	case 0:
		y = r.PickInt(lo, lo, hi, hi, lo+1, hi-1)
	default:
		y = r.Range(lo, hi)
	}
	if y < lo {
		y = lo
	}
	if y > hi {
		y = hi
	}
	switch r.Intn(8) {
	case 0: // around new year / ISO week boundary
		d := ref.DaysFromCivil(y, 12, 28) + r.Intn(8)
		if d > ref.MaxDay {
			d = ref.MaxDay
		}
		return ref.DateFromDays(d)
	case 1: // month / quarter ends
		m := r.PickInt(1, 3, 4, 6, 7, 9, 10, 12, 2)
		if r.Bool() {
			return ref.Date{Y: y, M: m, D: ref.DaysInMonth(y, m)}
		}
		return ref.Date{Y: y, M: m, D: 1}
	case 2: // leap day region
		return ref.Date{Y: y, M: 2, D: r.Range(27, ref.DaysInMonth(y, 2))}
	case 3:
		return ref.Date{Y: y, M: 1, D: r.Range(1, 4)}
	}
	m := r.Range(1, 12)
	return ref.Date{Y: y, M: m, D: r.Range(1, ref.DaysInMonth(y, m))}
}

// SpellTime renders a time with a randomly chosen admissible spelling.
func SpellTime(r *core.Rand, t ref.TimeV) string {
	if !t.H12 {
		// 24:00 spellings
		if t.Off == 1440 && r.Chance(1, 3) {
			return "24:00"
		}
		if t.Off == 0 && r.Chance(1, 4) {
			return "<24:00"
		}
	}
	s := ref.FormatTime(t)
	// pad the hour
	if r.Chance(1, 4) {
		pre := ""
		body := s
		if strings.HasPrefix(body, "<") {
			pre, body = "<", body[1:]
		}
		if len(body) > 1 && body[1] == ':' {
			s = pre + "0" + body
		}
	}
	return s
}

// GenTime draws a time value, biased to edges.
func GenTime(r *core.Rand, lo, hi int, allow12 bool) ref.TimeV {
	var off int
	switch r.Intn(10) {
	case 0:
		off = r.PickInt(lo, hi, 0, 1440, -1, 1439, 1441, 720, 719, 721, -1440, 2879, 60, 59)
		if off < lo || off > hi {
			off = r.Range(lo, hi)
		}
	case 1, 2:
		off = r.Range(lo, hi)
	default: // mostly during the day
		off = r.Range(0, 1439)
		if off < lo || off > hi {
			off = r.Range(lo, hi)
		}
	}
	return ref.TimeV{Off: off, H12: allow12 && r.Chance(1, 4)}
}

// SpellDuration renders a duration with a randomly chosen admissible spelling.
func SpellDuration(r *core.Rand, d ref.DurV) string {
	a := d.Mins
	if a < 0 {
		a = -a
	}
	sign := ""
	if d.Mins < 0 || d.ZeroSign < 0 {
		sign = "-"
	} else if d.ForcePlus || d.ZeroSign > 0 {
		sign = "+"
	}
	h, m := a/60, a%60
	var body string
	switch {
	case a == 0:
		body = r.Pick("0m", "0h", "0h0m", "00m", "0h00m")
	case h == 0:
		body = r.Pick(fmt.Sprintf("%dm", m), fmt.Sprintf("0h%dm", m), fmt.Sprintf("%02dm", m))
	case m == 0:
		body = r.Pick(fmt.Sprintf("%dh", h), fmt.Sprintf("%dh0m", h), fmt.Sprintf("%dh00m", h), fmt.Sprintf("%dm", a))
	default:
		body = r.Pick(fmt.Sprintf("%dh%dm", h, m), fmt.Sprintf("%dh%02dm", h, m), fmt.Sprintf("%dm", a), fmt.Sprintf("%dh%dm", h, m))
	}
	if r.Chance(1, 40) {
		// any number of leading zeros is part of the literal syntax: a long literal is not a big amount
		body = strings.Repeat("0", r.PickInt(1, 5, 18, 22, 30, 60)) + body
	}
	return sign + body
}

// GenDuration draws a duration value.
func GenDuration(r *core.Rand, maxHours int) ref.DurV {
	if maxHours == 0 {
		maxHours = 30
	}
	var mins int
	switch r.Intn(12) {
	case 0:
		mins = 0
	case 1:
		mins = r.PickInt(1, 59, 60, 61, 90, 119, 120, 1439, 1440, 1441, maxHours*60)
	default:
		mins = r.Intn(maxHours*60 + 1)
	}
	d := ref.DurV{Mins: mins}
	switch r.Intn(6) {
	case 0, 1:
		d.Mins = -mins
		if mins == 0 {
			d.ZeroSign = -1
		}
	case 2:
		d.ForcePlus = true
		if mins == 0 {
			d.ZeroSign = 1
		}
	}
	return d
}

// Document generates a conforming document and its model.
func Document(r *core.Rand, o Opts) *Out {
	out := &Out{Doc: &ref.Doc{}, Feat: map[string]bool{}}
	if o.MaxRecs == 0 {
		o.MaxRecs = 6
	}
	if o.MaxEntries == 0 {
		o.MaxEntries = 5
	}
	nrec := r.Range(o.MinRecs, o.MaxRecs)
	// dates
	dates := make([]ref.Date, 0, nrec)
	seen := map[ref.Date]bool{}
	for len(dates) < nrec {
		d := genDate(r, &o)
		if len(dates) > 0 && !o.NoDupDates && r.Chance(1, 10) {
			d = dates[r.Intn(len(dates))]
		}
		if o.NoDupDates && seen[d] {
			// move forward until free (bounded)
			ok := false
			for k := 1; k < 50; k++ {
				c := ref.DateFromDays(d.Days() + k)
				if c.Representable() && !seen[c] {
					d, ok = c, true
					break
				}
			}
			if !ok {
				nrec--
				continue
			}
		}
		seen[d] = true
		dates = append(dates, d)
	}
	if o.Sorted {
		for i := 1; i < len(dates); i++ {
			for j := i; j > 0 && dates[j].Less(dates[j-1]); j-- {
				dates[j], dates[j-1] = dates[j-1], dates[j]
			}
		}
	} else {
		for i := 1; i < len(dates); i++ {
			if dates[i].Less(dates[i-1]) {
				out.feat("unsorted")
			}
		}
	}
	if len(seen) < len(dates) {
		out.feat("dup_dates")
	}

	fileEOL := "\n"
	if !o.PlainLayout && r.Chance(1, 4) {
		fileEOL = "\r\n"
		out.feat("crlf")
	}
	mixedEOL := o.Hostile && r.Chance(1, 5)
	if mixedEOL {
		out.feat("mixed_eol")
	}
	var sb strings.Builder
	emit := func(text, eol string, li LineInfo) {
		if mixedEOL && r.Chance(1, 3) {
			if eol == "\n" {
				eol = "\r\n"
			} else {
				eol = "\n"
			}
		}
		sb.WriteString(text)
		sb.WriteString(eol)
		out.Lines = append(out.Lines, li)
	}
	blankLine := func() string {
		if o.Hostile && r.Chance(1, 3) {
			out.feat("ws_only_lines")
			return r.Pick(" ", "  ", "\t", "    ", " \t ", "   ", "\t\t", "        ")
		}
		return ""
	}
	// leading blank lines
	if o.Hostile && r.Chance(1, 4) {
		out.feat("leading_blank_lines")
		for k := r.Range(1, 3); k > 0; k-- {
			emit(blankLine(), fileEOL, LineInfo{Kind: LBlank, Rec: -1, Ent: -1})
		}
	}
	idTok := func(ri, ei int) string {
		if !o.IDs {
			return ""
		}
		if ei < 0 {
			return fmt.Sprintf("[r%d]", ri)
		}
		return fmt.Sprintf("[r%de%d]", ri, ei)
	}
	for ri, d := range dates {
		rec := ref.Rec{Date: d, Dashes: !r.Chance(1, 4)}
		lay := RecLayout{Indent: "    ", EOL: fileEOL}
		if !o.PlainLayout || r.Chance(1, 3) {
			lay.Indent = r.Pick("    ", "    ", "  ", "   ", "\t")
		}
		if o.Hostile && r.Chance(1, 6) {
			if lay.EOL == "\n" {
				lay.EOL = "\r\n"
			} else {
				lay.EOL = "\n"
			}
			out.feat("mixed_eol")
		}
		// separator
		if ri > 0 {
			nb := 1
			if !o.PlainLayout && r.Chance(1, 3) {
				nb = r.Range(2, 4)
				out.feat("multi_blank_separator")
			}
			for k := 0; k < nb; k++ {
				emit(blankLine(), lay.EOL, LineInfo{Kind: LBlank, Rec: -1, Ent: -1})
			}
		}
		// headline
		head := ref.FormatDate(d, rec.Dashes)
		if !rec.Dashes {
			out.feat("slash_dates")
		}
		wantShould := r.Chance(1, 3)
		if o.Should == 1 {
			wantShould = false
		} else if o.Should == 2 {
			wantShould = true
		}
		// records that share a date often repeat the same should-total (a day split over two records)
		var sameDate *int
		for pi := range out.Doc.Recs {
			if out.Doc.Recs[pi].Date == d && out.Doc.Recs[pi].Should != nil {
				sameDate = out.Doc.Recs[pi].Should
			}
		}
		if sameDate != nil && o.Should != 1 {
			wantShould = true
		}
		if wantShould {
			sd := GenDuration(r, 12)
			if o.MaxHours > 1000000 && r.Chance(1, 4) {
				sd = GenDuration(r, o.MaxHours) // the specification sets no upper bound
			}
			if r.Chance(2, 3) && sd.Mins < 0 {
				sd.Mins = -sd.Mins
			}
			if sameDate != nil && r.Chance(2, 3) {
				sd = ref.DurV{Mins: *sameDate}
			}
			v := sd.Mins
			rec.Should = &v
			gap := " "
			if r.Chance(1, 6) {
				gap = "  "
			}
			head += gap + "(" + SpellDuration(r, sd) + "!)"
			out.feat("should_total")
		}
		emit(head, lay.EOL, LineInfo{Kind: LHeadline, Rec: ri, Ent: -1})
		// record summary
		nsum := 0
		if r.Chance(1, 2) {
			nsum = r.Range(1, 3)
		}
		if o.IDs && nsum == 0 {
			nsum = 1
		}
		for k := 0; k < nsum; k++ {
			line := phrase(r, &o, out, 1, 5)
			if k == 0 && o.IDs {
				line = idTok(ri, -1) + " " + line
			}
			for startsBlank(line) || indentLike(line) {
				line = "x" + line
			}
			if !(k == 0 && o.IDs) && r.Chance(1, 30) {
				// a summary line that would be an entry if its first, invisible character were not there
				line = r.Pick("\u200b", "\ufeff", "\u2060", "\u00ad") + r.Pick("    ", "\t", "  ") + r.Pick("2h", "30m", "8:00 - 9:00", "-15m") + " " + line
				out.feat("invisible_then_entry_like")
			}
			if !(k == 0 && o.IDs) && r.Chance(1, 40) {
				// a summary line made only of characters that are white space to many libraries but not blank characters of the format
				line = r.Pick("\f", "\v", "\u0085", "\u2028", "\u2029", "\f\f", "\u2028\v")
				out.feat("whitespace_like_summary_line")
			}
			if o.TrailingBlank && r.Chance(1, 6) {
				line += r.Pick(" ", "  ", "\t", " \t")
				out.feat("trailing_blanks")
			}
			rec.Summary = append(rec.Summary, line)
			emit(line, lay.EOL, LineInfo{Kind: LRecSummary, Rec: ri, Ent: -1})
		}
		// entries
		nent := r.Range(0, o.MaxEntries)
		haveOpen := false
		for ei := 0; ei < nent; ei++ {
			var e ref.Ent
			var valueText string
			kind := r.Intn(10)
			switch {
			case kind < 4:
				e.Kind = ref.KDur
				e.Dur = GenDuration(r, o.MaxHours)
				if e.Dur.Mins < 0 {
					out.feat("neg_duration")
				}
				valueText = SpellDuration(r, e.Dur)
			case kind < 9 || o.OpenRanges == 0 || haveOpen:
				e.Kind = ref.KRange
				a := GenTime(r, -1440, 2879, true)
				b := GenTime(r, a.Off, 2879, true)
				if r.Chance(1, 2) {
					b.H12 = a.H12
				}
				e.Start, e.End = a, b
				if a.Shift() != 0 || b.Shift() != 0 {
					out.feat("shifted")
				}
				if a.H12 || b.H12 {
					out.feat("h12")
				}
				sa, sb2 := SpellTime(r, a), SpellTime(r, b)
				if strings.Contains(sa, "24:00") || strings.Contains(sb2, "24:00") {
					out.feat("h24_00")
				}
				valueText, e.DashSpaces = spellDash(r, sa, sb2)
			default:
				e.Kind = ref.KOpen
				haveOpen = true
				out.feat("open_range")
				e.Start = GenTime(r, -1440, 2879, true)
				if e.Start.Shift() != 0 {
					out.feat("shifted")
				}
				if r.Chance(1, 4) {
					e.ExtraQ = r.Range(1, 9)
				}
				valueText, e.DashSpaces = spellDash(r, SpellTime(r, e.Start), strings.Repeat("?", 1+e.ExtraQ))
			}
			// summary
			first := ""
			if r.Chance(2, 3) {
				first = phrase(r, &o, out, 1, 6)
				if r.Chance(1, 12) {
					first = " " + first // extra leading blank belongs to the summary
				}
			}
			// an open range whose summary starts on the subsequent line (the entry line ends with the placeholder)
			forceBelow := e.Kind == ref.KOpen && r.Chance(1, 4)
			if forceBelow {
				first = ""
			}
			idOnNextLine := false
			if o.IDs {
				if first == "" && (forceBelow || r.Chance(1, 3)) {
					idOnNextLine = true // the summary (and its id token) starts on the continuation line
				} else if first == "" {
					first = idTok(ri, ei)
				} else {
					first = idTok(ri, ei) + " " + first
				}
			}
			if o.TrailingBlank && r.Chance(1, 8) {
				first += r.Pick(" ", "  ", "\t")
				out.feat("trailing_blanks")
			}
			e.Summary = []string{first}
			line := lay.Indent + valueText
			if first != "" {
				line += " " + first
			}
			emit(line, lay.EOL, LineInfo{Kind: LEntry, Rec: ri, Ent: ei})
			if r.Chance(1, 4) || idOnNextLine || forceBelow {
				out.feat("multi_line_summary")
				for k := r.Range(1, 2); k > 0; k-- {
					cont := phrase(r, &o, out, 1, 5)
					if idOnNextLine {
						cont = idTok(ri, ei) + " " + cont
						idOnNextLine = false
					}
					if r.Chance(1, 5) {
						cont = r.Pick(" ", "  ", "   ", "\t", "\t\t", " \t", "\t- ") + cont // vertically aligned text, nested lists
					}
					if ref.IsBlankSpec(cont) {
						cont = "x"
					}
					if o.TrailingBlank && r.Chance(1, 8) {
						cont += r.Pick(" ", "\t")
					}
					e.Summary = append(e.Summary, cont)
					emit(lay.Indent+lay.Indent+cont, lay.EOL, LineInfo{Kind: LEntryCont, Rec: ri, Ent: ei})
				}
			}
			rec.Entries = append(rec.Entries, e)
		}
		out.Doc.Recs = append(out.Doc.Recs, rec)
		out.Layouts = append(out.Layouts, lay)
	}
	// trailing blank lines
	if o.Hostile && r.Chance(1, 4) {
		out.feat("trailing_blank_lines")
		for k := r.Range(1, 3); k > 0; k-- {
			emit(blankLine(), fileEOL, LineInfo{Kind: LBlank, Rec: -1, Ent: -1})
		}
	}
	text := sb.String()
	// final newline
	if !o.PlainLayout && r.Chance(1, 4) && len(text) > 0 {
		if strings.HasSuffix(text, "\r\n") {
			text = text[:len(text)-2]
		} else if strings.HasSuffix(text, "\n") {
			text = text[:len(text)-1]
		}
		out.feat("no_final_newline")
	}
	out.Text = text
	return out
}

func indentLike(line string) bool {
	return strings.HasPrefix(line, "  ") || strings.HasPrefix(line, "\t")
}

func spellDash(r *core.Rand, a, b string) (string, bool) {
	switch r.Intn(8) {
	case 0:
		return a + "-" + b, false
	case 1:
		return a + " -" + b, true
	case 2:
		return a + "- " + b, false
	case 3:
		return a + "  -  " + b, true
	}
	return a + " - " + b, true
}

func init() {
	// U+FFFD is an ordinary valid character (it is also what invalid bytes decode to)
	unicodeWords = append(unicodeWords, "repl�ced", "�", "x�")
	jsonWords = append(jsonWords, "�\"q")
}
