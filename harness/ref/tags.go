package ref

import (
	"strings"
	"unicode"
	"unicode/utf8"
)

// Tag is a recognised tag: lower-cased name and literal value ("" = absent).
type Tag struct {
	Name  string
	Value string
}

func isNameChar(r rune) bool {
	return unicode.IsLetter(r) || (r >= '0' && r <= '9') || r == '_' || r == '-'
}

func lowerName(s string) string {
	var sb strings.Builder
	for _, r := range s {
		sb.WriteRune(unicode.ToLower(r))
	}
	return sb.String()
}

// ScanTags finds the tags of one summary line, left to right, as the
// specification defines them. ambiguous is true when the line contains a
// construct the specification does not decide ("##name": a name preceded by
// more than a single '#').
func ScanTags(line string) (tags []Tag, ambiguous bool) {
	i := 0
	for i < len(line) {
		if line[i] != '#' {
			_, w := utf8.DecodeRuneInString(line[i:])
			i += w
			continue
		}
		// name
		j := i + 1
		for j < len(line) {
			r, w := utf8.DecodeRuneInString(line[j:])
			if !isNameChar(r) {
				break
			}
			j += w
		}
		if j == i+1 {
			i++
			continue
		}
		if i > 0 && line[i-1] == '#' {
			ambiguous = true
		}
		t := Tag{Name: lowerName(line[i+1 : j])}
		i = j
		if i < len(line) && line[i] == '=' {
			i++ // the '=' belongs to the tag even if the value turns out to be absent
			if i < len(line) && (line[i] == '"' || line[i] == '\'') {
				q := line[i]
				if k := strings.IndexByte(line[i+1:], q); k >= 0 {
					t.Value = line[i+1 : i+1+k]
					i = i + 1 + k + 1
				}
				// unterminated: value absent; scanning resumes at the quote character
			} else {
				k := i
				for k < len(line) {
					r, w := utf8.DecodeRuneInString(line[k:])
					if !isNameChar(r) {
						break
					}
					k += w
				}
				t.Value = line[i:k]
				i = k
			}
		}
		tags = append(tags, t)
	}
	return
}

// ScanSummaryTags scans all lines of a summary.
func ScanSummaryTags(lines []string) (tags []Tag, ambiguous bool) {
	for _, l := range lines {
		t, a := ScanTags(l)
		tags = append(tags, t...)
		ambiguous = ambiguous || a
	}
	return
}

// TagKeys returns the set of lookup keys a list of tags provides: every
// (name, value) and, for every tag, the bare (name, "").
func TagKeys(tags []Tag) map[Tag]bool {
	m := map[Tag]bool{}
	for _, t := range tags {
		m[t] = true
		m[Tag{t.Name, ""}] = true
	}
	return m
}

// MatchesAll tells whether the key set satisfies all queried tags (a query
// without value matches any value; a query with value matches literally).
func MatchesAll(keys map[Tag]bool, query []Tag) bool {
	for _, q := range query {
		if !keys[q] {
			return false
		}
	}
	return true
}

// CanonicalTag renders a tag the way klog's JSON output spells it.
func CanonicalTag(t Tag) string {
	s := "#" + t.Name
	if t.Value == "" {
		return s
	}
	plain := true
	for _, r := range t.Value {
		if !isNameChar(r) {
			plain = false
		}
	}
	if plain {
		return s + "=" + t.Value
	}
	if strings.Contains(t.Value, `"`) {
		return s + "='" + t.Value + "'"
	}
	return s + `="` + t.Value + `"`
}
