package ref

import (
	"fmt"
	"strconv"
	"strings"
)

// ---------- dates ----------

// ParseDate recognises YYYY-MM-DD and YYYY/MM/DD (no mixed separators) and
// checks the Gregorian calendar.
func ParseDate(s string) (d Date, dashes bool, ok bool) {
	if len(s) != 10 {
		return
	}
	for i := 0; i < 10; i++ {
		c := s[i]
		if i == 4 || i == 7 {
			if c != '-' && c != '/' {
				return
			}
		} else if c < '0' || c > '9' {
			return
		}
	}
	if s[4] != s[7] {
		return
	}
	y, _ := strconv.Atoi(s[0:4])
	m, _ := strconv.Atoi(s[5:7])
	dd, _ := strconv.Atoi(s[8:10])
	if !ValidDate(y, m, dd) {
		return
	}
	return Date{y, m, dd}, s[4] == '-', true
}

// FormatDate renders the canonical text of a date.
func FormatDate(d Date, dashes bool) string {
	sep := "-"
	if !dashes {
		sep = "/"
	}
	return fmt.Sprintf("%04d%s%02d%s%02d", d.Y, sep, d.M, sep, d.D)
}

// ---------- times ----------

// TimeV is a time of day relative to the record's date: Off is minutes since
// that date's midnight, in [-1440, 2879]; H12 tells whether the literal used
// the 12-hour clock.
type TimeV struct {
	Off int
	H12 bool
}

// Shift returns -1, 0, +1 for yesterday / today / tomorrow.
func (t TimeV) Shift() int {
	switch {
	case t.Off < 0:
		return -1
	case t.Off >= 1440:
		return 1
	}
	return 0
}

// ParseTime recognises the time literals of the specification:
// [<] H[H]:MM [am|pm] [>], hours 0-24 (24 only as 24:00, not with >), 1-12 with am/pm.
func ParseTime(s string) (t TimeV, ok bool) {
	shift := 0
	if strings.HasPrefix(s, "<") {
		shift = -1
		s = s[1:]
	}
	if strings.HasSuffix(s, ">") {
		if shift != 0 {
			return
		}
		shift = 1
		s = s[:len(s)-1]
	}
	ampm := ""
	if strings.HasSuffix(s, "am") {
		ampm = "am"
		s = s[:len(s)-2]
	} else if strings.HasSuffix(s, "pm") {
		ampm = "pm"
		s = s[:len(s)-2]
	}
	colon := strings.IndexByte(s, ':')
	if colon != 1 && colon != 2 {
		return
	}
	hs, ms := s[:colon], s[colon+1:]
	if len(ms) != 2 || !allDigits(hs) || !allDigits(ms) {
		return
	}
	h, _ := strconv.Atoi(hs)
	m, _ := strconv.Atoi(ms)
	if m > 59 {
		return
	}
	if ampm != "" {
		if h < 1 || h > 12 {
			return
		}
		if ampm == "am" && h == 12 {
			h = 0
		} else if ampm == "pm" && h < 12 {
			h += 12
		}
	} else if h == 24 {
		if m != 0 || shift > 0 {
			return
		}
		// 24:00 ≡ 0:00>, <24:00 ≡ 0:00
		h = 0
		shift++
	} else if h > 24 {
		return
	}
	return TimeV{Off: shift*1440 + h*60 + m, H12: ampm != ""}, true
}

func allDigits(s string) bool {
	if s == "" {
		return false
	}
	for i := 0; i < len(s); i++ {
		if s[i] < '0' || s[i] > '9' {
			return false
		}
	}
	return true
}

// FormatTime renders the canonical literal of a time value.
func FormatTime(t TimeV) string {
	shift := t.Shift()
	rest := t.Off - shift*1440
	h, m := rest/60, rest%60
	pre, suf := "", ""
	if shift < 0 {
		pre = "<"
	} else if shift > 0 {
		suf = ">"
	}
	if !t.H12 {
		return fmt.Sprintf("%s%d:%02d%s", pre, h, m, suf)
	}
	ap := "am"
	hh := h
	switch {
	case h == 0:
		hh = 12
	case h == 12:
		ap = "pm"
	case h > 12:
		hh, ap = h-12, "pm"
	}
	return fmt.Sprintf("%s%d:%02d%s%s", pre, hh, m, ap, suf)
}

// ---------- durations ----------

// DurV is a signed duration with its sign notation.
type DurV struct {
	Mins      int
	ForcePlus bool // literal had an explicit '+'
	ZeroSign  int  // for zero values: -1 '-', +1 '+', 0 none
}

// ParseDuration recognises [+-] [Nh] [Nm] with at least one part and, when the
// hour part is present, minutes < 60. overflow reports amounts that do not fit
// into 63 bits (outside the model; such literals are not judged).
func ParseDuration(s string) (d DurV, ok bool, overflow bool) {
	sign := 1
	explicit := byte(0)
	if len(s) > 0 && (s[0] == '+' || s[0] == '-') {
		explicit = s[0]
		if s[0] == '-' {
			sign = -1
		}
		s = s[1:]
	}
	hasH, hasM := false, false
	var hv, mv uint64
	i := 0
	readNum := func() (uint64, bool, bool) { // value, present, overflow
		start := i
		var v uint64
		of := false
		for i < len(s) && s[i] >= '0' && s[i] <= '9' {
			dgt := uint64(s[i] - '0')
			if v > (1<<63-1-dgt)/10 {
				of = true
			}
			v = v*10 + dgt
			i++
		}
		return v, i > start, of
	}
	v, present, of1 := readNum()
	if !present {
		return
	}
	of2 := false
	if i < len(s) && s[i] == 'h' {
		hasH, hv = true, v
		i++
		if i < len(s) {
			v2, p2, o2 := readNum()
			if !p2 || i >= len(s) || s[i] != 'm' {
				return
			}
			hasM, mv, of2 = true, v2, o2
			i++
		}
	} else if i < len(s) && s[i] == 'm' {
		hasM, mv = true, v
		i++
	} else {
		return
	}
	if i != len(s) {
		return
	}
	if hasH && hasM && (mv >= 60 || of2) {
		return
	}
	if of1 || of2 {
		return DurV{}, false, true
	}
	const max = uint64(1<<63 - 1)
	if hasH && hv > max/60 {
		return DurV{}, false, true
	}
	total := hv*60 + mv
	if total > max || total < mv {
		return DurV{}, false, true
	}
	d.Mins = sign * int(total)
	d.ForcePlus = explicit == '+'
	if total == 0 && explicit != 0 {
		d.ZeroSign = sign
	}
	return d, true, false
}

// FormatDuration renders the canonical literal (1h30m, -45m, 0m, +2h, -0m …).
func FormatDuration(d DurV) string {
	if d.Mins == 0 {
		switch {
		case d.ZeroSign < 0:
			return "-0m"
		case d.ZeroSign > 0:
			return "+0m"
		}
		return "0m"
	}
	a := d.Mins
	if a < 0 {
		a = -a
	}
	var sb strings.Builder
	if d.Mins < 0 {
		sb.WriteByte('-')
	} else if d.ForcePlus {
		sb.WriteByte('+')
	}
	if a/60 > 0 {
		sb.WriteString(strconv.Itoa(a / 60))
		sb.WriteByte('h')
	}
	if a%60 > 0 {
		sb.WriteString(strconv.Itoa(a % 60))
		sb.WriteByte('m')
	}
	return sb.String()
}

// FormatPlainDuration renders minutes without sign notation facts (totals).
func FormatPlainDuration(mins int) string { return FormatDuration(DurV{Mins: mins}) }

// FormatSignedDuration renders a diff: positive values carry '+'.
func FormatSignedDuration(mins int) string {
	if mins > 0 {
		return "+" + FormatPlainDuration(mins)
	}
	return FormatPlainDuration(mins)
}
