package ref

import (
	"strings"
	"unicode"
	"unicode/utf8"
)

// Verdict of the reference recogniser.
type Verdict int

const (
	Conforming Verdict = iota
	NonConforming
	Undecided // the specification is silent or contradictory about this text
)

func (v Verdict) String() string { return [...]string{"conforming", "non-conforming", "undecided"}[v] }

// SrcLine is one physical line of a text.
type SrcLine struct {
	Text   string // without line ending
	Ending string // "\n", "\r\n" or "" (last line without newline)
}

// SplitLines splits a text into physical lines the way the specification
// defines newlines (LF or CRLF). A text that ends in a newline does not have an
// additional empty last line.
func SplitLines(text string) []SrcLine {
	var out []SrcLine
	for len(text) > 0 {
		i := strings.IndexByte(text, '\n')
		if i < 0 {
			out = append(out, SrcLine{Text: text})
			break
		}
		l := text[:i]
		end := "\n"
		if strings.HasSuffix(l, "\r") {
			l = l[:len(l)-1]
			end = "\r\n"
		}
		out = append(out, SrcLine{Text: l, Ending: end})
		text = text[i+1:]
	}
	return out
}

// IsBlankST: only spaces and tabs (or empty).
func IsBlankST(s string) bool {
	for i := 0; i < len(s); i++ {
		if s[i] != ' ' && s[i] != '\t' {
			return false
		}
	}
	return true
}

// isBlankChar: the specification's "blank character" (tab or Unicode Zs).
func isBlankChar(r rune) bool { return r == '\t' || unicode.Is(unicode.Zs, r) }

// IsBlankSpec: the line consists only of blank characters in the spec's sense.
func IsBlankSpec(s string) bool {
	for _, r := range s {
		if !isBlankChar(r) {
			return false
		}
	}
	return true
}

// RecInfo tells where a recognised record sits in the text.
type RecInfo struct {
	FirstLine, LastLine int    // 0-based physical line indices of the record's first and last line
	Indent              string // indentation sequence used by the record ("" if it has no indented line)
}

// Recognition is the result of judging a text against the specification.
type Recognition struct {
	Verdict Verdict
	Doc     *Doc      // Conforming: the denoted data
	Recs    []RecInfo // Conforming: record positions
	BadLine int       // NonConforming: 0-based index of the first line at which the text stops conforming
	Rule    string    // NonConforming: the MUST rule that is broken; Undecided: why
	Lines   []SrcLine
	// LineAmbiguous: the text is non-conforming under every reading, but the readings place the first fault on different lines.
	LineAmbiguous bool
}

// Recognise judges a text. It is a line automaton written from the
// specification; where the specification leaves a construct open, the verdict
// is Undecided and the text is not used for conformance claims.
func Recognise(text string) *Recognition {
	res := &Recognition{Lines: SplitLines(text), Doc: &Doc{}}
	undecided := func(why string) *Recognition {
		res.Verdict, res.Rule, res.Doc = Undecided, why, nil
		return res
	}
	bad := func(line int, rule string) *Recognition {
		res.Verdict, res.BadLine, res.Rule, res.Doc = NonConforming, line, rule, nil
		return res
	}
	if !utf8.ValidString(text) {
		return undecided("invalid UTF-8")
	}
	for _, l := range res.Lines {
		// A carriage return that is not part of a CRLF is an ordinary, non-blank character: fine inside a summary,
		// "extra text" after a date, a malformed value at the end of an entry. (Only SplitLines gives CR a meaning.)
		if strings.ContainsRune(l.Text, 0) {
			return undecided("NUL character")
		}
	}
	lines := res.Lines
	i := 0
	for i < len(lines) {
		// between records
		if IsBlankST(lines[i].Text) {
			i++
			continue
		}
		if IsBlankSpec(lines[i].Text) {
			return undecided("line of blank characters other than space/tab")
		}
		// headline
		rec, hv, rule := parseHeadline(lines[i].Text)
		if hv == Undecided {
			return undecided(rule)
		}
		if hv == NonConforming {
			return bad(i, rule)
		}
		info := RecInfo{FirstLine: i}
		i++
		// summary lines and entries
		inEntries := false
		indent := ""
		haveOpen := false
		for i < len(lines) && !IsBlankST(lines[i].Text) {
			t := lines[i].Text
			if IsBlankSpec(t) {
				// A line of blank characters that are not all space/tab. Read as a "blank line" (glossary) it ends the
				// record, read as a summary line it is a summary consisting of blanks. If another line of this block
				// follows that cannot start a record, both readings reject the text; otherwise the spec does not decide.
				if i+1 < len(lines) && !IsBlankST(lines[i+1].Text) && !IsBlankSpec(lines[i+1].Text) {
					if _, hv, _ := parseHeadline(lines[i+1].Text); hv == NonConforming {
						res.LineAmbiguous = true
						return bad(i, "blank line (blank characters other than space/tab) inside a record")
					}
				}
				return undecided("line of blank characters other than space/tab inside a record")
			}
			if !inEntries {
				if ind := indentationOf(t); ind != "" {
					inEntries = true
					indent = ind
				} else {
					r, _ := utf8.DecodeRuneInString(t)
					if isBlankChar(r) {
						return bad(i, "record summary line starts with a blank character / wrong indentation")
					}
					rec.Summary = append(rec.Summary, t)
					i++
					continue
				}
			}
			// entry phase
			if !strings.HasPrefix(t, indent) {
				return bad(i, "wrong or missing indentation")
			}
			rest := t[len(indent):]
			if strings.HasPrefix(rest, indent) {
				// second level: continuation of the previous entry's summary
				if len(rec.Entries) == 0 {
					return bad(i, "doubly indented line without a preceding entry")
				}
				cont := rest[len(indent):]
				if IsBlankSpec(cont) {
					return bad(i, "entry summary line consists only of blank characters")
				}
				e := &rec.Entries[len(rec.Entries)-1]
				e.Summary = append(e.Summary, cont)
				i++
				continue
			}
			r0, _ := utf8.DecodeRuneInString(rest)
			if rest == "" || r0 == ' ' || r0 == '\t' {
				return bad(i, "wrong indentation (not the record's indentation sequence)")
			}
			ent, ev, rule := parseEntry(rest)
			if ev == Undecided {
				return undecided(rule)
			}
			if ev == NonConforming {
				return bad(i, rule)
			}
			if ent.Kind == KOpen {
				if haveOpen {
					return bad(i, "second open range in a record")
				}
				haveOpen = true
			}
			rec.Entries = append(rec.Entries, ent)
			i++
		}
		info.LastLine = i - 1
		info.Indent = indent
		res.Doc.Recs = append(res.Doc.Recs, rec)
		res.Recs = append(res.Recs, info)
	}
	res.Verdict = Conforming
	return res
}

// indentationOf returns the indentation sequence a first indented line uses:
// four, three or two spaces, or one tab ("" if the line is not indented).
func indentationOf(t string) string {
	for _, ind := range []string{"    ", "   ", "  ", "\t"} {
		if strings.HasPrefix(t, ind) {
			return ind
		}
	}
	return ""
}

func parseHeadline(t string) (Rec, Verdict, string) {
	var rec Rec
	r0, _ := utf8.DecodeRuneInString(t)
	if isBlankChar(r0) {
		return rec, NonConforming, "headline must start with a date (no indentation)"
	}
	end := strings.IndexAny(t, " \t")
	dateText := t
	rest := ""
	if end >= 0 {
		dateText, rest = t[:end], t[end:]
	}
	d, dashes, ok := ParseDate(dateText)
	if !ok {
		return rec, NonConforming, "malformed or non-Gregorian date"
	}
	rec.Date, rec.Dashes = d, dashes
	if rest == "" {
		return rec, Conforming, ""
	}
	trimmed := strings.TrimLeft(rest, " \t")
	sepHasTab := strings.Contains(rest[:len(rest)-len(trimmed)], "\t")
	if trimmed == "" {
		return rec, Undecided, "trailing blanks after the date"
	}
	if trimmed[0] != '(' {
		return rec, NonConforming, "extra text in the headline"
	}
	closeIdx := strings.IndexByte(trimmed, ')')
	if closeIdx < 0 {
		return rec, NonConforming, "should-total without closing parenthesis"
	}
	inner := trimmed[1:closeIdx]
	after := trimmed[closeIdx+1:]
	if strings.TrimLeft(after, " \t") != "" {
		return rec, NonConforming, "extra text after the should-total"
	}
	innerTrim := strings.Trim(inner, " \t")
	if !strings.HasSuffix(innerTrim, "!") {
		return rec, NonConforming, "should-total must be a duration followed by '!'"
	}
	dv, ok, overflow := ParseDuration(strings.TrimSuffix(innerTrim, "!"))
	if overflow {
		return rec, Undecided, "should-total amount beyond the model's integer range"
	}
	if !ok {
		return rec, NonConforming, "malformed should-total duration"
	}
	if strings.ContainsAny(strings.TrimSuffix(innerTrim, "!"), "!") {
		return rec, NonConforming, "malformed should-total"
	}
	if innerTrim != inner || after != "" || sepHasTab {
		return rec, Undecided, "blanks inside or after the should-total parentheses, or tab before it"
	}
	v := dv.Mins
	rec.Should = &v
	return rec, Conforming, ""
}

// parseEntry judges the text of an entry line after its indentation.
func parseEntry(rest string) (Ent, Verdict, string) {
	var e Ent
	// value token(s)
	tokEnd := strings.IndexAny(rest, " \t")
	first := rest
	if tokEnd >= 0 {
		first = rest[:tokEnd]
	}
	if dv, ok, overflow := ParseDuration(first); ok || overflow {
		if overflow {
			return e, Undecided, "duration amount beyond the model's integer range"
		}
		e.Kind, e.Dur = KDur, dv
		return finishEntry(e, rest[len(first):])
	}
	// range or open range: START [spaces] - [spaces] (END | ?+)
	j := strings.IndexAny(rest, "- ")
	if j <= 0 {
		return e, NonConforming, "malformed entry value"
	}
	start, ok := ParseTime(rest[:j])
	if !ok {
		return e, NonConforming, "malformed time"
	}
	k := j
	for k < len(rest) && rest[k] == ' ' {
		k++
	}
	spacesBefore := k > j
	if k >= len(rest) || rest[k] != '-' {
		return e, NonConforming, "range without dash"
	}
	k++
	for k < len(rest) && rest[k] == ' ' {
		k++
	}
	tail := rest[k:]
	endTok := tail
	if x := strings.IndexAny(tail, " \t"); x >= 0 {
		endTok = tail[:x]
	}
	if endTok == "" {
		return e, NonConforming, "range without end"
	}
	e.Start, e.DashSpaces = start, spacesBefore
	if endTok[0] == '?' {
		for _, c := range endTok {
			if c != '?' {
				return e, NonConforming, "malformed or shifted open-range placeholder"
			}
		}
		e.Kind, e.ExtraQ = KOpen, len(endTok)-1
		return finishEntry(e, tail[len(endTok):])
	}
	endT, ok := ParseTime(endTok)
	if !ok {
		return e, NonConforming, "malformed time"
	}
	if endT.Off < start.Off {
		return e, NonConforming, "range end before start"
	}
	e.Kind, e.End = KRange, endT
	return finishEntry(e, tail[len(endTok):])
}

func finishEntry(e Ent, after string) (Ent, Verdict, string) {
	if after == "" {
		e.Summary = []string{""}
		return e, Conforming, ""
	}
	if after[0] == '\t' {
		return e, Undecided, "tab between entry value and summary"
	}
	// exactly one space separates value and summary; further blanks belong to the summary
	e.Summary = []string{after[1:]}
	return e, Conforming, ""
}

// ParseEntryText judges the text of an entry as it follows the indentation
// (value, optionally followed by one space and the summary's first line).
func ParseEntryText(s string) (Ent, Verdict, string) {
	r0, _ := utf8.DecodeRuneInString(s)
	if s == "" || isBlankChar(r0) {
		return Ent{}, NonConforming, "entry must start with its value"
	}
	if strings.ContainsAny(s, "\r\n\x00") {
		return Ent{}, Undecided, "control characters"
	}
	return parseEntry(s)
}

// ValidRecordSummaryLine: non-empty and not starting with a blank character.
func ValidRecordSummaryLine(s string) bool {
	r0, _ := utf8.DecodeRuneInString(s)
	return s != "" && !isBlankChar(r0)
}

// ValidContinuationLine: not only blank characters.
func ValidContinuationLine(s string) bool { return !IsBlankSpec(s) }
