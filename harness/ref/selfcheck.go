package ref

import (
	"fmt"
	"time"
)

// SelfCheckCalendar cross-checks the reference calendar against Go's time
// package on a sample of dates (all of a few years plus a seed-dependent
// stride over the whole range). It returns "" if they agree.
func SelfCheckCalendar(seed uint64) string {
	check := func(days int) string {
		y, m, d := CivilFromDays(days)
		if DaysFromCivil(y, m, d) != days {
			return fmt.Sprintf("round trip of day %d", days)
		}
		t := time.Date(y, time.Month(m), d, 0, 0, 0, 0, time.UTC)
		if t.Year() != y || int(t.Month()) != m || t.Day() != d {
			return fmt.Sprintf("%04d-%02d-%02d is not normalised in Go", y, m, d)
		}
		wd := int(t.Weekday())
		if wd == 0 {
			wd = 7
		}
		if wd != Weekday(days) {
			return fmt.Sprintf("weekday of %04d-%02d-%02d: ref %d, Go %d", y, m, d, Weekday(days), wd)
		}
		gy, gw := t.ISOWeek()
		ry, rw := ISOWeek(y, m, d)
		if gy != ry || gw != rw {
			return fmt.Sprintf("ISO week of %04d-%02d-%02d: ref (%d,%d), Go (%d,%d)", y, m, d, ry, rw, gy, gw)
		}
		if t.YearDay() != OrdinalDay(y, m, d) {
			return fmt.Sprintf("ordinal of %04d-%02d-%02d", y, m, d)
		}
		return ""
	}
	stride := 97 + int(seed%13)
	for days := MinDay; days <= MaxDay; days += stride {
		if s := check(days); s != "" {
			return s
		}
	}
	for _, y := range []int{0, 1, 4, 100, 400, 1582, 1900, 2000, 2024, 9999} {
		for days := DaysFromCivil(y, 1, 1); days <= DaysFromCivil(y, 12, 31); days++ {
			if s := check(days); s != "" {
				return s
			}
		}
	}
	return ""
}
