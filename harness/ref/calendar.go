// Package ref is the reference model the oracles compare klog against. It is
// written from Specification.md and the command help texts and must not import
// anything from github.com/jotaen/klog (bin/check enforces this).
package ref

// DaysFromCivil returns the number of days since 1970-01-01 of the proleptic
// Gregorian date y-m-d (algorithm by H. Hinnant; valid for negative years).
func DaysFromCivil(y, m, d int) int {
	if m <= 2 {
		y--
	}
	era := floorDiv(y, 400)
	yoe := y - era*400
	mp := (m + 9) % 12
	doy := (153*mp+2)/5 + d - 1
	doe := yoe*365 + yoe/4 - yoe/100 + doy
	return era*146097 + doe - 719468
}

// CivilFromDays is the inverse of DaysFromCivil.
func CivilFromDays(z int) (y, m, d int) {
	z += 719468
	era := floorDiv(z, 146097)
	doe := z - era*146097
	yoe := (doe - doe/1460 + doe/36524 - doe/146096) / 365
	y = yoe + era*400
	doy := doe - (365*yoe + yoe/4 - yoe/100)
	mp := (5*doy + 2) / 153
	d = doy - (153*mp+2)/5 + 1
	if mp < 10 {
		m = mp + 3
	} else {
		m = mp - 9
	}
	if m <= 2 {
		y++
	}
	return
}

func floorDiv(a, b int) int {
	q := a / b
	if (a%b != 0) && ((a < 0) != (b < 0)) {
		q--
	}
	return q
}

func floorMod(a, b int) int { return a - floorDiv(a, b)*b }

// MinDay and MaxDay bound the representable range 0000-01-01 … 9999-12-31.
var MinDay = DaysFromCivil(0, 1, 1)
var MaxDay = DaysFromCivil(9999, 12, 31)

func IsLeap(y int) bool { return y%4 == 0 && (y%100 != 0 || y%400 == 0) }

func DaysInMonth(y, m int) int {
	switch m {
	case 1, 3, 5, 7, 8, 10, 12:
		return 31
	case 4, 6, 9, 11:
		return 30
	case 2:
		if IsLeap(y) {
			return 29
		}
		return 28
	}
	return 0
}

// ValidDate tells whether y-m-d is a day of the Gregorian calendar within 0000..9999.
func ValidDate(y, m, d int) bool {
	return y >= 0 && y <= 9999 && m >= 1 && m <= 12 && d >= 1 && d <= DaysInMonth(y, m)
}

// Weekday returns 1 = Monday … 7 = Sunday. (1970-01-01 was a Thursday.)
func Weekday(days int) int { return floorMod(days+3, 7) + 1 }

// Quarter returns 1..4.
func Quarter(m int) int { return (m-1)/3 + 1 }

// OrdinalDay returns the 1-based day of the year.
func OrdinalDay(y, m, d int) int { return DaysFromCivil(y, m, d) - DaysFromCivil(y, 1, 1) + 1 }

// WeeksInISOYear: a year has 53 ISO weeks iff Jan 1 is a Thursday, or it is a
// leap year and Jan 1 is a Wednesday.
func WeeksInISOYear(y int) int {
	wd := Weekday(DaysFromCivil(y, 1, 1))
	if wd == 4 || (IsLeap(y) && wd == 3) {
		return 53
	}
	return 52
}

// ISOWeek returns the ISO-8601 week-year and week number of the date.
func ISOWeek(y, m, d int) (weekYear, week int) {
	days := DaysFromCivil(y, m, d)
	wd := Weekday(days)
	ord := OrdinalDay(y, m, d)
	week = (ord - wd + 10) / 7
	weekYear = y
	if week < 1 {
		weekYear = y - 1
		week = WeeksInISOYear(y - 1)
	} else if week > WeeksInISOYear(y) {
		weekYear = y + 1
		week = 1
	}
	return
}

// ISOWeekMonday returns the day number of the Monday of ISO week (weekYear, week);
// ok is false if that week does not exist.
func ISOWeekMonday(weekYear, week int) (int, bool) {
	if week < 1 || week > WeeksInISOYear(weekYear) {
		return 0, false
	}
	jan4 := DaysFromCivil(weekYear, 1, 4)
	monday1 := jan4 - (Weekday(jan4) - 1)
	return monday1 + (week-1)*7, true
}

// Date is a plain calendar date of the model.
type Date struct{ Y, M, D int }

func (d Date) Days() int { return DaysFromCivil(d.Y, d.M, d.D) }

func DateFromDays(z int) Date { y, m, d := CivilFromDays(z); return Date{y, m, d} }

func (d Date) Plus(n int) Date { return DateFromDays(d.Days() + n) }

func (d Date) Less(o Date) bool { return d.Days() < o.Days() }

// Representable tells whether the date lies in 0000-01-01..9999-12-31.
func (d Date) Representable() bool { return ValidDate(d.Y, d.M, d.D) }

// PeriodKind enumerates the report / filter period kinds.
type PeriodKind int

const (
	PDay PeriodKind = iota
	PWeek
	PMonth
	PQuarter
	PYear
)

// PeriodBounds returns the first and last day number of the period of the given
// kind that contains the date, clamped to the representable range.
func PeriodBounds(kind PeriodKind, dt Date) (since, until int) {
	days := dt.Days()
	switch kind {
	case PDay:
		since, until = days, days
	case PWeek:
		since = days - (Weekday(days) - 1)
		until = since + 6
	case PMonth:
		since = DaysFromCivil(dt.Y, dt.M, 1)
		until = DaysFromCivil(dt.Y, dt.M, DaysInMonth(dt.Y, dt.M))
	case PQuarter:
		q := Quarter(dt.M)
		since = DaysFromCivil(dt.Y, (q-1)*3+1, 1)
		until = DaysFromCivil(dt.Y, q*3, DaysInMonth(dt.Y, q*3))
	case PYear:
		since = DaysFromCivil(dt.Y, 1, 1)
		until = DaysFromCivil(dt.Y, 12, 31)
	}
	if since < MinDay {
		since = MinDay
	}
	if until > MaxDay {
		until = MaxDay
	}
	return
}

// PeriodID returns an identifier that is equal for two dates iff they lie in
// the same period of the given kind.
func PeriodID(kind PeriodKind, dt Date) int {
	switch kind {
	case PDay:
		return dt.Days()
	case PWeek:
		days := dt.Days()
		return days - (Weekday(days) - 1) // the Monday
	case PMonth:
		return dt.Y*12 + dt.M
	case PQuarter:
		return dt.Y*4 + Quarter(dt.M)
	}
	return dt.Y
}

// String renders the date as YYYY-MM-DD.
func (d Date) String() string { return FormatDate(d, true) }
