package ref

import (
	"fmt"
	"strings"
)

// EntKind is the kind of an entry.
type EntKind int

const (
	KDur EntKind = iota
	KRange
	KOpen
)

func (k EntKind) String() string { return [...]string{"duration", "range", "open_range"}[k] }

// Ent is one entry of the model, with value and notation facts.
type Ent struct {
	Kind       EntKind
	Dur        DurV     // KDur
	Start, End TimeV    // KRange (Start, End), KOpen (Start)
	DashSpaces bool     // KRange/KOpen: the literal had a space before the dash
	ExtraQ     int      // KOpen: number of additional '?' placeholders
	Summary    []string // first element is the text on the entry line ("" if none); further elements are continuation lines
}

// Rec is one record of the model.
type Rec struct {
	Date    Date
	Dashes  bool
	Should  *int // should-total in minutes; nil = absent
	Summary []string
	Entries []Ent
}

// Doc is a whole file.
type Doc struct{ Recs []Rec }

// EntryMinutes is the value an entry contributes to the total (open range: 0).
func (e *Ent) Minutes() int {
	switch e.Kind {
	case KDur:
		return e.Dur.Mins
	case KRange:
		return e.End.Off - e.Start.Off
	}
	return 0
}

// ValueText renders the canonical literal of the entry's value.
func (e *Ent) ValueText() string {
	sp := ""
	if e.DashSpaces {
		sp = " "
	}
	switch e.Kind {
	case KDur:
		return FormatDuration(e.Dur)
	case KRange:
		return FormatTime(e.Start) + sp + "-" + sp + FormatTime(e.End)
	}
	return FormatTime(e.Start) + sp + "-" + sp + strings.Repeat("?", 1+e.ExtraQ)
}

func (r *Rec) Total() int {
	t := 0
	for i := range r.Entries {
		t += r.Entries[i].Minutes()
	}
	return t
}

func (r *Rec) ShouldMins() int {
	if r.Should == nil {
		return 0
	}
	return *r.Should
}

func (r *Rec) OpenIndex() int {
	for i := range r.Entries {
		if r.Entries[i].Kind == KOpen {
			return i
		}
	}
	return -1
}

func (d *Doc) Total() int {
	t := 0
	for i := range d.Recs {
		t += d.Recs[i].Total()
	}
	return t
}

func (d *Doc) ShouldTotal() int {
	t := 0
	for i := range d.Recs {
		t += d.Recs[i].ShouldMins()
	}
	return t
}

// Canonical renders the document the way `klog print --no-style` is specified
// to: LF, four spaces, one blank line between records, canonical literals.
// A should-total of 0 minutes is not printed.
func (d *Doc) Canonical() string {
	var sb strings.Builder
	for i := range d.Recs {
		if i > 0 {
			sb.WriteString("\n")
		}
		sb.WriteString(d.Recs[i].Canonical())
	}
	return sb.String()
}

func (r *Rec) Canonical() string {
	var sb strings.Builder
	sb.WriteString(FormatDate(r.Date, r.Dashes))
	if r.Should != nil && *r.Should != 0 {
		sb.WriteString(" (" + FormatPlainDuration(*r.Should) + "!)")
	}
	sb.WriteString("\n")
	for _, l := range r.Summary {
		sb.WriteString(l + "\n")
	}
	for i := range r.Entries {
		e := &r.Entries[i]
		sb.WriteString("    " + e.ValueText())
		for j, l := range e.Summary {
			if j == 0 {
				if l != "" {
					sb.WriteString(" " + l)
				}
				sb.WriteString("\n")
			} else {
				sb.WriteString("        " + l + "\n")
			}
		}
		if len(e.Summary) == 0 {
			sb.WriteString("\n")
		}
	}
	return sb.String()
}

// Clone makes a deep copy.
func (d *Doc) Clone() *Doc {
	out := &Doc{Recs: make([]Rec, len(d.Recs))}
	for i := range d.Recs {
		out.Recs[i] = d.Recs[i].Clone()
	}
	return out
}

func (r *Rec) Clone() Rec {
	c := *r
	if r.Should != nil {
		v := *r.Should
		c.Should = &v
	}
	c.Summary = append([]string(nil), r.Summary...)
	c.Entries = make([]Ent, len(r.Entries))
	for i := range r.Entries {
		c.Entries[i] = r.Entries[i]
		c.Entries[i].Summary = append([]string(nil), r.Entries[i].Summary...)
	}
	return c
}

// DiffDocs compares two documents field by field and returns "" if equal,
// else a description of the first difference. If notation is false, notation
// facts (separator, 12/24 h, dash spacing, placeholder length, sign notation)
// are ignored.
func DiffDocs(want, got *Doc, notation bool) string {
	if len(want.Recs) != len(got.Recs) {
		return fmt.Sprintf("record count: want %d, got %d", len(want.Recs), len(got.Recs))
	}
	for i := range want.Recs {
		if s := DiffRecs(&want.Recs[i], &got.Recs[i], notation); s != "" {
			return fmt.Sprintf("record #%d (%s): %s", i, FormatDate(want.Recs[i].Date, true), s)
		}
	}
	return ""
}

func DiffRecs(w, g *Rec, notation bool) string {
	if w.Date != g.Date {
		return fmt.Sprintf("date: want %v, got %v", w.Date, g.Date)
	}
	if notation && w.Dashes != g.Dashes {
		return fmt.Sprintf("date separator: want dashes=%v, got %v", w.Dashes, g.Dashes)
	}
	if w.ShouldMins() != g.ShouldMins() {
		return fmt.Sprintf("should-total: want %d, got %d", w.ShouldMins(), g.ShouldMins())
	}
	if !eqStrings(w.Summary, g.Summary) {
		return fmt.Sprintf("record summary: want %q, got %q", w.Summary, g.Summary)
	}
	if len(w.Entries) != len(g.Entries) {
		return fmt.Sprintf("entry count: want %d, got %d", len(w.Entries), len(g.Entries))
	}
	for j := range w.Entries {
		if s := DiffEnts(&w.Entries[j], &g.Entries[j], notation); s != "" {
			return fmt.Sprintf("entry #%d: %s", j, s)
		}
	}
	return ""
}

func normSummary(s []string) []string {
	if len(s) == 0 {
		return []string{""}
	}
	return s
}

func DiffEnts(w, g *Ent, notation bool) string {
	if w.Kind != g.Kind {
		return fmt.Sprintf("kind: want %v, got %v", w.Kind, g.Kind)
	}
	switch w.Kind {
	case KDur:
		if w.Dur.Mins != g.Dur.Mins {
			return fmt.Sprintf("duration: want %d, got %d", w.Dur.Mins, g.Dur.Mins)
		}
		if notation && (w.Dur.ForcePlus != g.Dur.ForcePlus || w.Dur.ZeroSign != g.Dur.ZeroSign) {
			return fmt.Sprintf("duration sign notation: want %+v, got %+v", w.Dur, g.Dur)
		}
	case KRange:
		if w.Start.Off != g.Start.Off || w.End.Off != g.End.Off {
			return fmt.Sprintf("range: want %d..%d, got %d..%d", w.Start.Off, w.End.Off, g.Start.Off, g.End.Off)
		}
		if notation && (w.Start.H12 != g.Start.H12 || w.End.H12 != g.End.H12 || w.DashSpaces != g.DashSpaces) {
			return fmt.Sprintf("range notation: want %s, got %s", w.ValueText(), g.ValueText())
		}
	case KOpen:
		if w.Start.Off != g.Start.Off {
			return fmt.Sprintf("open range start: want %d, got %d", w.Start.Off, g.Start.Off)
		}
		if notation && (w.Start.H12 != g.Start.H12 || w.DashSpaces != g.DashSpaces || w.ExtraQ != g.ExtraQ) {
			return fmt.Sprintf("open range notation: want %s, got %s", w.ValueText(), g.ValueText())
		}
	}
	if !eqStrings(normSummary(w.Summary), normSummary(g.Summary)) {
		return fmt.Sprintf("entry summary: want %q, got %q", w.Summary, g.Summary)
	}
	return ""
}

func eqStrings(a, b []string) bool {
	if len(a) != len(b) {
		return false
	}
	for i := range a {
		if a[i] != b[i] {
			return false
		}
	}
	return true
}
