// vh is the verification harness binary: supervisor (run), workload child
// (child) and witness replay (replay) in one executable.
package main

import (
	"verifharness/core"
	_ "verifharness/props"
)

func main() { core.Main() }
