package core

import (
	"encoding/binary"
	"encoding/json"
	"fmt"
	"os"
	"path/filepath"
	"runtime/debug"
	"sort"
	"strings"
	"time"
)

// Violation is one observed refutation of a property.
type Violation struct {
	Key    string `json:"key"`    // fingerprint, matched against known_findings.json
	Msg    string `json:"msg"`    // human readable: what was observed vs. expected
	Case   int64  `json:"case"`   // case index inside the (seed, tier) case list
	Replay string `json:"replay"` // path of the witness file
}

// Result is what one child process reports (checkpointed while running).
type Result struct {
	Shard        int                 `json:"shard"`
	Done         bool                `json:"done"`
	NextCase     int64               `json:"next_case"` // first case index not yet covered by this result
	Evaluations  int64               `json:"evaluations"`
	Counters     map[string]int64    `json:"counters"`
	Sets         map[string][]uint64 `json:"sets"`
	Samples      []json.RawMessage   `json:"samples"`
	Violations   []Violation         `json:"violations"`
	ViolCount    map[string]int64    `json:"viol_count"`
	Inconclusive map[string]int64    `json:"inconclusive"`
	Notes        []string            `json:"notes"`
}

// Env is the child-side API a property monitor uses to journal cases and
// report what it observed.
type Env struct {
	Prop      string
	Tier      string // quick | thorough
	Seed      uint64
	Shard     int
	NShards   int
	Dir       string // scratch directory of this shard (removed by the supervisor)
	KlogBin   string // real klog binary built from the tree under test (-tags verif)
	RaceBuild bool   // this child was built with -race
	ReplayDir string
	Skip      map[int64]bool // cases that killed a previous incarnation of this shard
	OnlyCase  int64          // >= 0: replay exactly this case
	Verbose   bool

	res       Result
	sets      map[string]map[uint64]struct{}
	journal   *os.File
	curCase   int64
	curInput  func() []byte
	lastCkpt  time.Time
	maxSample int
	start     int64
}

// NewEnv creates the environment, loading a checkpoint if one exists.
func NewEnv(prop, tier string, seed uint64, shard, nshards int, dir string) (*Env, error) {
	e := &Env{Prop: prop, Tier: tier, Seed: seed, Shard: shard, NShards: nshards, Dir: dir,
		Skip: map[int64]bool{}, OnlyCase: -1, maxSample: 4}
	e.res = Result{Shard: shard, Counters: map[string]int64{}, Sets: map[string][]uint64{},
		ViolCount: map[string]int64{}, Inconclusive: map[string]int64{}}
	e.sets = map[string]map[uint64]struct{}{}
	if b, err := os.ReadFile(filepath.Join(dir, "result.json")); err == nil {
		var r Result
		if json.Unmarshal(b, &r) == nil {
			e.res = r
			if e.res.Counters == nil {
				e.res.Counters = map[string]int64{}
			}
			if e.res.ViolCount == nil {
				e.res.ViolCount = map[string]int64{}
			}
			if e.res.Inconclusive == nil {
				e.res.Inconclusive = map[string]int64{}
			}
			for name, xs := range r.Sets {
				m := map[uint64]struct{}{}
				for _, x := range xs {
					m[x] = struct{}{}
				}
				e.sets[name] = m
			}
		}
	}
	e.start = e.res.NextCase
	j, err := os.OpenFile(filepath.Join(dir, "current.bin"), os.O_RDWR|os.O_CREATE, 0644)
	if err != nil {
		return nil, err
	}
	e.journal = j
	e.lastCkpt = time.Now()
	return e, nil
}

// Quick reports whether this is the quick tier.
func (e *Env) Quick() bool { return e.Tier != "thorough" }

// N picks the tier-specific size.
func (e *Env) N(quick, thorough int) int {
	if e.Quick() {
		return quick
	}
	return thorough
}

// Mine tells whether case i belongs to this shard and still has to be executed.
func (e *Env) Mine(i int64) bool {
	if e.OnlyCase >= 0 {
		return i == e.OnlyCase
	}
	if i%int64(e.NShards) != int64(e.Shard) {
		return false
	}
	if i < e.start {
		return false
	}
	if e.Skip[i] {
		// still advance bookkeeping so that a later checkpoint moves past it
		e.res.NextCase = i + 1
		return false
	}
	return true
}

// Begin journals the case before it is executed: if the process dies, the
// supervisor finds index and input of the fatal case in current.bin.
// input is only rendered lazily for violations, but always journaled on disk.
func (e *Env) Begin(i int64, input []byte) {
	e.curCase = i
	var hdr [16]byte
	binary.LittleEndian.PutUint64(hdr[0:], uint64(i))
	binary.LittleEndian.PutUint64(hdr[8:], uint64(len(input)))
	buf := append(hdr[:], input...)
	_, _ = e.journal.WriteAt(buf, 0)
}

// End marks the case as completed (counted as one evaluation).
func (e *Env) End(i int64) {
	e.res.Evaluations++
	e.res.NextCase = i + 1
	if time.Since(e.lastCkpt) > 3*time.Second {
		e.Checkpoint(false)
	}
}

// Evals adds n evaluations that were executed inside one journaled block.
func (e *Env) Evals(n int64) { e.res.Evaluations += n - 1 }

func (e *Env) Count(name string, n int64) { e.res.Counters[name] += n }

// Distinct inserts a fingerprint into a named set (e.g. "nontrivial").
func (e *Env) Distinct(set string, fp uint64) {
	m := e.sets[set]
	if m == nil {
		m = map[uint64]struct{}{}
		e.sets[set] = m
	}
	if len(m) < 4_000_000 {
		m[fp] = struct{}{}
	}
}

// Nontrivial records a distinct non-trivial case.
func (e *Env) Nontrivial(fp uint64) { e.Distinct("nontrivial", fp) }

// Sample keeps a few actual cases for the evidence file.
func (e *Env) Sample(v any) {
	if len(e.res.Samples) >= e.maxSample {
		return
	}
	b, err := json.Marshal(v)
	if err == nil {
		e.res.Samples = append(e.res.Samples, b)
	}
}

func (e *Env) WantSample() bool { return len(e.res.Samples) < e.maxSample }

// Inconclusive records a case whose outcome could not be decided.
func (e *Env) Inconclusive(reason string) { e.res.Inconclusive[reason]++ }

func (e *Env) Note(s string) {
	if len(e.res.Notes) < 20 {
		e.res.Notes = append(e.res.Notes, s)
	}
}

// Violation records a refutation. key is the fingerprint used for known
// findings; witness is stored as a replay file.
func (e *Env) Violation(key, msg string, witness any) {
	e.res.ViolCount[key]++
	if e.res.ViolCount[key] > 3 || len(e.res.Violations) >= 60 {
		return
	}
	_ = os.MkdirAll(e.ReplayDir, 0755)
	name := fmt.Sprintf("%s-seed%d-%s-case%d-%016x.json", e.Prop, e.Seed, e.Tier, e.curCase, Hash64(key, msg))
	path := filepath.Join(e.ReplayDir, name)
	w := map[string]any{"property": e.Prop, "key": key, "msg": msg, "seed": e.Seed, "tier": e.Tier,
		"case": e.curCase, "shard": e.Shard, "nshards": e.NShards, "witness": witness}
	b, _ := json.MarshalIndent(w, "", " ")
	_ = os.WriteFile(path, b, 0644)
	e.res.Violations = append(e.res.Violations, Violation{Key: key, Msg: msg, Case: e.curCase, Replay: path})
	if e.Verbose || e.OnlyCase >= 0 {
		fmt.Printf("violation key=%s\n%s\n", key, msg)
	}
}

// Checkpoint writes the result file atomically.
func (e *Env) Checkpoint(done bool) {
	e.res.Done = done
	e.res.Sets = map[string][]uint64{}
	for name, m := range e.sets {
		xs := make([]uint64, 0, len(m))
		for x := range m {
			xs = append(xs, x)
		}
		sort.Slice(xs, func(i, j int) bool { return xs[i] < xs[j] })
		e.res.Sets[name] = xs
	}
	b, _ := json.Marshal(&e.res)
	tmp := filepath.Join(e.Dir, "result.json.tmp")
	if os.WriteFile(tmp, b, 0644) == nil {
		_ = os.Rename(tmp, filepath.Join(e.Dir, "result.json"))
	}
	e.lastCkpt = time.Now()
}

// PanicInfo describes a recovered panic.
type PanicInfo struct {
	Value string
	Stack string
}

// Site returns a short fingerprint of the panic: message class + first klog frame.
func (p *PanicInfo) Site() string {
	return PanicSite(p.Value, p.Stack)
}

// InKlog tells whether the panic went through klog code.
func (p *PanicInfo) InKlog() bool { return strings.Contains(p.Stack, "github.com/jotaen/klog/") }

// PanicSite builds "message @ first-klog-function" with numbers stripped from the message.
func PanicSite(value, stack string) string {
	msg := value
	if i := strings.IndexByte(msg, '\n'); i >= 0 {
		msg = msg[:i]
	}
	// strip digits so that e.g. index values do not split one site into many keys
	var sb strings.Builder
	lastHash := false
	for _, c := range msg {
		if c >= '0' && c <= '9' {
			if !lastHash {
				sb.WriteByte('#')
				lastHash = true
			}
			continue
		}
		lastHash = false
		sb.WriteRune(c)
	}
	msg = sb.String()
	if len(msg) > 100 {
		msg = msg[:100]
	}
	fn := ""
	for _, line := range strings.Split(stack, "\n") {
		line = strings.TrimSpace(line)
		if strings.HasPrefix(line, "github.com/jotaen/klog/") || strings.HasPrefix(line, "created by github.com/jotaen/klog/") {
			fn = line
			if i := strings.LastIndex(fn, "("); i > 0 && !strings.HasPrefix(fn, "created by") {
				fn = fn[:i]
			}
			fn = strings.TrimPrefix(fn, "github.com/jotaen/klog/")
			break
		}
	}
	return msg + " @ " + fn
}

// Guard runs f and converts a panic on the calling goroutine into a PanicInfo.
func Guard(f func()) (p *PanicInfo) {
	defer func() {
		if r := recover(); r != nil {
			p = &PanicInfo{Value: fmt.Sprint(r), Stack: string(debug.Stack())}
		}
	}()
	f()
	return nil
}
