// Package core holds the runtime-verification framework: deterministic PRNG,
// case journal, event collection, child/supervisor protocol, evidence writer.
package core

// Rand is a small deterministic PRNG (splitmix64 seeding a xorshift-multiply
// stream). It is implemented here so that case lists are a function of the seed
// alone, independent of the Go version's math/rand.
type Rand struct{ s uint64 }

func splitmix(x *uint64) uint64 {
	*x += 0x9E3779B97F4A7C15
	z := *x
	z = (z ^ (z >> 30)) * 0xBF58476D1CE4E5B9
	z = (z ^ (z >> 27)) * 0x94D049BB133111EB
	return z ^ (z >> 31)
}

// NewRand derives a stream from any number of integers (seed, property, shard, case …).
func NewRand(parts ...uint64) *Rand {
	var x uint64 = 0x853C49E6748FEA9B
	for _, p := range parts {
		x ^= p + 0x9E3779B97F4A7C15 + (x << 6) + (x >> 2)
		_ = splitmix(&x)
	}
	r := &Rand{s: x}
	r.Uint64()
	return r
}

func (r *Rand) Uint64() uint64 { return splitmix(&r.s) }

// Intn returns a value in [0, n).
func (r *Rand) Intn(n int) int {
	if n <= 0 {
		return 0
	}
	return int(r.Uint64() % uint64(n))
}

// Range returns a value in [lo, hi].
func (r *Rand) Range(lo, hi int) int { return lo + r.Intn(hi-lo+1) }

// Chance returns true with probability num/den.
func (r *Rand) Chance(num, den int) bool { return r.Intn(den) < num }

func (r *Rand) Bool() bool { return r.Uint64()&1 == 1 }

// Pick returns one of the strings.
func (r *Rand) Pick(xs ...string) string { return xs[r.Intn(len(xs))] }

// PickInt returns one of the ints.
func (r *Rand) PickInt(xs ...int) int { return xs[r.Intn(len(xs))] }

// Perm returns a permutation of 0..n-1.
func (r *Rand) Perm(n int) []int {
	p := make([]int, n)
	for i := range p {
		p[i] = i
	}
	for i := n - 1; i > 0; i-- {
		j := r.Intn(i + 1)
		p[i], p[j] = p[j], p[i]
	}
	return p
}

// Hash64 is FNV-1a, used for case fingerprints.
func Hash64(parts ...string) uint64 {
	var h uint64 = 14695981039346656037
	for _, p := range parts {
		for i := 0; i < len(p); i++ {
			h ^= uint64(p[i])
			h *= 1099511628211
		}
		h ^= 0xff
		h *= 1099511628211
	}
	return h
}
