package core

import (
	"bufio"
	"encoding/binary"
	"encoding/json"
	"flag"
	"fmt"
	"os"
	"os/exec"
	"path/filepath"
	"regexp"
	"sort"
	"strconv"
	"strings"
	"sync"
	"syscall"
	"time"
)

// Prop is one property monitor: a workload generator plus an oracle.
type Prop struct {
	ID          string
	Level       string // exploration | fault_enumeration | …
	Rule        string // how cases are generated and what makes one non-trivial
	Assumptions []string
	Exhaustive  func(tier string) bool
	// Planned is the number of cases (Begin/End pairs, or Evals) a complete run executes; 0 = unknown.
	Planned func(tier string, seed uint64) int64
	// Run executes this shard's part of the workload.
	Run func(e *Env)
	// RaceShards is the number of additional children started from the -race build (0 = none).
	RaceShards func(tier string) int
	// RunRace is the workload of the race children (defaults to Run).
	RunRace func(e *Env)
	// MaxShards caps the number of children (0 = no cap).
	MaxShards int
	// Watchdog is the wall-clock limit per child; its firing is inconclusive, never a violation.
	Watchdog func(tier string) time.Duration
	// CrashIsViolation: a process-fatal crash inside klog code refutes the property (default true).
	CrashNotViolation bool
	// HangIsViolation: a case that also fails to terminate within two minutes when replayed alone refutes the property.
	HangIsViolation bool
	// Finish may post-process the aggregated result (e.g. demand that every cell of a fault table was seen).
	Finish func(agg *Aggregate)
}

var registry = map[string]*Prop{}

func Register(p *Prop) { registry[p.ID] = p }

func Lookup(id string) *Prop { return registry[id] }

func AllProps() []string {
	var ids []string
	for id := range registry {
		ids = append(ids, id)
	}
	sort.Strings(ids)
	return ids
}

// Aggregate is the union of all children's results.
type Aggregate struct {
	Evaluations  int64
	Counters     map[string]int64
	Sets         map[string]map[uint64]struct{}
	Samples      []json.RawMessage
	Violations   []Violation
	ViolCount    map[string]int64
	Inconclusive map[string]int64
	Notes        []string
	Problems     []string // infrastructure problems (exit 2)
}

type knownFile struct {
	Known []struct {
		Property string `json:"property"`
		Key      string `json:"key"`
		What     string `json:"what"`
	} `json:"known"`
	Fixed []struct {
		Property string `json:"property"`
		Commit   string `json:"commit"`
		What     string `json:"what"`
	} `json:"fixed"`
}

// Main is the entry point of the vh binary.
func Main() {
	if len(os.Args) < 2 {
		fmt.Fprintln(os.Stderr, "usage: vh run|child|replay|list …")
		os.Exit(2)
	}
	switch os.Args[1] {
	case "run":
		os.Exit(runSupervisor(os.Args[2:]))
	case "child":
		os.Exit(runChild(os.Args[2:]))
	case "replay":
		os.Exit(runReplay(os.Args[2:]))
	case "list":
		for _, id := range AllProps() {
			fmt.Println(id)
		}
	default:
		fmt.Fprintln(os.Stderr, "unknown mode", os.Args[1])
		os.Exit(2)
	}
}

type commonFlags struct {
	prop, tier, dir, klogbin, replaydir string
	seed                                uint64
	shard, nshards                      int
	race                                bool
	skip                                string
	only                                int64
	verbose                             bool
}

func (c *commonFlags) bind(fs *flag.FlagSet) {
	fs.StringVar(&c.prop, "prop", "", "property id")
	fs.StringVar(&c.tier, "tier", "quick", "quick|thorough")
	fs.Uint64Var(&c.seed, "seed", 1, "seed")
	fs.IntVar(&c.shard, "shard", 0, "")
	fs.IntVar(&c.nshards, "nshards", 1, "")
	fs.StringVar(&c.dir, "dir", "", "shard scratch dir")
	fs.StringVar(&c.klogbin, "klogbin", "", "klog binary")
	fs.StringVar(&c.replaydir, "replaydir", "", "")
	fs.BoolVar(&c.race, "race", false, "this is the race build / race workload")
	fs.StringVar(&c.skip, "skip", "", "comma separated case indices to skip")
	fs.Int64Var(&c.only, "only", -1, "run only this case")
	fs.BoolVar(&c.verbose, "v", false, "")
}

func runChild(args []string) int {
	fs := flag.NewFlagSet("child", flag.ExitOnError)
	var c commonFlags
	c.bind(fs)
	_ = fs.Parse(args)
	p := Lookup(c.prop)
	if p == nil {
		fmt.Fprintln(os.Stderr, "unknown property", c.prop)
		return 2
	}
	_ = os.MkdirAll(c.dir, 0755)
	SetProcessZone(c.shard)
	e, err := NewEnv(c.prop, c.tier, c.seed, c.shard, c.nshards, c.dir)
	if err != nil {
		fmt.Fprintln(os.Stderr, err)
		return 2
	}
	e.KlogBin, e.ReplayDir, e.RaceBuild, e.OnlyCase, e.Verbose = c.klogbin, c.replaydir, c.race, c.only, c.verbose
	for _, s := range strings.Split(c.skip, ",") {
		if s == "" {
			continue
		}
		if n, err := strconv.ParseInt(s, 10, 64); err == nil {
			e.Skip[n] = true
		}
	}
	run := p.Run
	if c.race && p.RunRace != nil {
		run = p.RunRace
	}
	run(e)
	e.Checkpoint(true)
	return 0
}

func runReplay(args []string) int {
	fs := flag.NewFlagSet("replay", flag.ExitOnError)
	file := fs.String("file", "", "witness file")
	klogbin := fs.String("klogbin", "", "")
	_ = fs.Parse(args)
	b, err := os.ReadFile(*file)
	if err != nil {
		fmt.Fprintln(os.Stderr, err)
		return 2
	}
	var w struct {
		Property string `json:"property"`
		Seed     uint64 `json:"seed"`
		Tier     string `json:"tier"`
		Case     int64  `json:"case"`
		Shard    int    `json:"shard"`
		NShards  int    `json:"nshards"`
		Race     bool   `json:"race"`
		Msg      string `json:"msg"`
	}
	if err := json.Unmarshal(b, &w); err != nil {
		fmt.Fprintln(os.Stderr, err)
		return 2
	}
	p := Lookup(w.Property)
	if p == nil {
		fmt.Fprintln(os.Stderr, "unknown property", w.Property)
		return 2
	}
	dir, _ := os.MkdirTemp(scratchBase(), "vh-replay-")
	defer os.RemoveAll(dir)
	e, _ := NewEnv(w.Property, w.Tier, w.Seed, w.Shard, w.NShards, dir)
	e.KlogBin, e.ReplayDir, e.OnlyCase, e.Verbose, e.RaceBuild = *klogbin, filepath.Join(dir, "replay"), w.Case, true, w.Race
	fmt.Printf("replaying %s case %d (seed %d, tier %s)\nrecorded: %s\n", w.Property, w.Case, w.Seed, w.Tier, w.Msg)
	run := p.Run
	if w.Race && p.RunRace != nil {
		run = p.RunRace
	}
	run(e)
	if len(e.res.Violations) > 0 {
		fmt.Printf("VIOLATION property=%s replay=%s\n", w.Property, *file)
		return 1
	}
	fmt.Println("no violation on replay")
	return 0
}

func scratchBase() string {
	if d := os.Getenv("VERIF_SCRATCH"); d != "" {
		return d
	}
	if st, err := os.Stat("/dev/shm"); err == nil && st.IsDir() {
		return "/dev/shm"
	}
	return os.TempDir()
}

type childState struct {
	shard    int
	race     bool
	dir      string
	skip     []int64
	restarts int
	res      *Result
	timedOut bool
}

var raceBlockRe = regexp.MustCompile(`(?s)WARNING: DATA RACE.*?==================`)

func runSupervisor(args []string) int {
	fs := flag.NewFlagSet("run", flag.ExitOnError)
	var c commonFlags
	c.bind(fs)
	jobs := fs.Int("jobs", 16, "parallel children")
	evidence := fs.String("evidence", "", "evidence file")
	known := fs.String("known", "", "known findings file")
	racebin := fs.String("racebin", "", "vh binary built with -race")
	_ = fs.Parse(args)
	p := Lookup(c.prop)
	if p == nil {
		fmt.Fprintln(os.Stderr, "unknown property", c.prop)
		return 2
	}
	startT := time.Now()
	exe, _ := os.Executable()
	work, err := os.MkdirTemp(scratchBase(), "vh-"+c.prop+"-")
	if err != nil {
		fmt.Fprintln(os.Stderr, err)
		return 2
	}
	defer os.RemoveAll(work)

	nshards := *jobs
	if p.MaxShards > 0 && nshards > p.MaxShards {
		nshards = p.MaxShards
	}
	var kids []*childState
	for i := 0; i < nshards; i++ {
		kids = append(kids, &childState{shard: i, dir: filepath.Join(work, fmt.Sprintf("s%02d", i))})
	}
	nrace := 0
	if p.RaceShards != nil && *racebin != "" {
		nrace = p.RaceShards(c.tier)
		for i := 0; i < nrace; i++ {
			kids = append(kids, &childState{shard: i, race: true, dir: filepath.Join(work, fmt.Sprintf("r%02d", i))})
		}
	}
	watchdog := 6 * time.Minute
	if c.tier == "thorough" {
		watchdog = 90 * time.Minute
	}
	if p.Watchdog != nil {
		watchdog = p.Watchdog(c.tier)
	}
	agg := &Aggregate{Counters: map[string]int64{}, Sets: map[string]map[uint64]struct{}{},
		ViolCount: map[string]int64{}, Inconclusive: map[string]int64{}}
	var mu sync.Mutex
	sem := make(chan struct{}, *jobs)
	var wg sync.WaitGroup
	for _, k := range kids {
		wg.Add(1)
		go func(k *childState) {
			defer wg.Done()
			sem <- struct{}{}
			defer func() { <-sem }()
			for {
				crashedCase, crashMsg, crashSite, inKlog, status := launch(exe, *racebin, &c, k, nshards, nrace, watchdog)
				if status == "done" {
					return
				}
				mu.Lock()
				if status == "timeout" {
					k.timedOut = true
					mu.Unlock()
					// replay the journaled case alone: a hang reproduces, load does not
					hung := false
					if crashedCase >= 0 {
						hung = replayAlone(exe, *racebin, &c, k, nshards, nrace, crashedCase, 2*time.Minute)
					}
					mu.Lock()
					if hung && p.HangIsViolation {
						key := "hang: case does not terminate within 2 minutes when run alone"
						agg.ViolCount[key]++
						path := filepath.Join(c.replaydir, fmt.Sprintf("%s-seed%d-%s-case%d-hang.json", c.prop, c.seed, c.tier, crashedCase))
						_ = os.MkdirAll(c.replaydir, 0755)
						w := map[string]any{"property": c.prop, "key": key, "msg": crashMsg, "seed": c.seed, "tier": c.tier, "case": crashedCase, "shard": k.shard, "nshards": shardsFor(k, nshards, nrace), "race": k.race}
						b, _ := json.MarshalIndent(w, "", " ")
						_ = os.WriteFile(path, b, 0644)
						agg.Violations = append(agg.Violations, Violation{Key: key, Msg: crashMsg, Case: crashedCase, Replay: path})
					} else if hung {
						agg.Inconclusive[fmt.Sprintf("case %d does not terminate within 2 minutes even when run alone (watchdog)", crashedCase)]++
					} else {
						agg.Inconclusive["watchdog fired for a child (wall clock under load; the interrupted case terminates when run alone)"]++
					}
					mu.Unlock()
					return
				}
				// crashed
				key := "crash: " + crashSite
				if inKlog && !p.CrashNotViolation {
					agg.ViolCount[key]++
					if agg.ViolCount[key] <= 3 {
						path := filepath.Join(c.replaydir, fmt.Sprintf("%s-seed%d-%s-case%d-crash.json", c.prop, c.seed, c.tier, crashedCase))
						_ = os.MkdirAll(c.replaydir, 0755)
						w := map[string]any{"property": c.prop, "key": key, "msg": crashMsg, "seed": c.seed, "tier": c.tier,
							"case": crashedCase, "shard": k.shard, "nshards": shardsFor(k, nshards, nrace), "race": k.race}
						b, _ := json.MarshalIndent(w, "", " ")
						_ = os.WriteFile(path, b, 0644)
						agg.Violations = append(agg.Violations, Violation{Key: key, Msg: crashMsg, Case: crashedCase, Replay: path})
					}
				} else {
					agg.Problems = append(agg.Problems, fmt.Sprintf("child %s crashed outside klog code at case %d: %s", k.dir, crashedCase, firstLines(crashMsg, 12)))
				}
				k.restarts++
				k.skip = append(k.skip, crashedCase)
				tooMany := k.restarts > 25 || crashedCase < 0
				mu.Unlock()
				if tooMany {
					mu.Lock()
					agg.Problems = append(agg.Problems, fmt.Sprintf("child %s: giving up after %d restarts", k.dir, k.restarts))
					mu.Unlock()
					return
				}
			}
		}(k)
	}
	wg.Wait()

	// merge results
	for _, k := range kids {
		b, err := os.ReadFile(filepath.Join(k.dir, "result.json"))
		if err != nil {
			if !k.timedOut {
				agg.Problems = append(agg.Problems, "no result from "+k.dir)
			}
			continue
		}
		var r Result
		if json.Unmarshal(b, &r) != nil {
			agg.Problems = append(agg.Problems, "unreadable result from "+k.dir)
			continue
		}
		agg.Evaluations += r.Evaluations
		for n, v := range r.Counters {
			agg.Counters[n] += v
		}
		for n, xs := range r.Sets {
			m := agg.Sets[n]
			if m == nil {
				m = map[uint64]struct{}{}
				agg.Sets[n] = m
			}
			for _, x := range xs {
				m[x] = struct{}{}
			}
		}
		for _, s := range r.Samples {
			if len(agg.Samples) < 6 {
				agg.Samples = append(agg.Samples, s)
			}
		}
		agg.Violations = append(agg.Violations, r.Violations...)
		for n, v := range r.ViolCount {
			agg.ViolCount[n] += v
		}
		for n, v := range r.Inconclusive {
			agg.Inconclusive[n] += v
		}
		agg.Notes = append(agg.Notes, r.Notes...)
		// race logs
		if k.race {
			logs, _ := filepath.Glob(filepath.Join(k.dir, "race.*"))
			for _, lf := range logs {
				lb, _ := os.ReadFile(lf)
				for _, blk := range raceBlockRe.FindAllString(string(lb), -1) {
					agg.Counters["race_reports"]++
					site := raceSite(blk)
					key := "race: " + site
					agg.ViolCount[key]++
					if agg.ViolCount[key] <= 2 {
						path := filepath.Join(c.replaydir, fmt.Sprintf("%s-seed%d-%s-race-%016x.txt", c.prop, c.seed, c.tier, Hash64(site)))
						_ = os.MkdirAll(c.replaydir, 0755)
						_ = os.WriteFile(path, []byte(blk), 0644)
						agg.Violations = append(agg.Violations, Violation{Key: key, Msg: firstLines(blk, 30), Replay: path})
					}
				}
			}
		}
	}
	if p.Finish != nil {
		p.Finish(agg)
	}

	// known findings
	var kf knownFile
	if *known != "" {
		if b, err := os.ReadFile(*known); err == nil {
			_ = json.Unmarshal(b, &kf)
		}
	}
	isKnown := func(key string) (string, bool) {
		for _, k := range kf.Known {
			if k.Property == c.prop && k.Key == key {
				return k.What, true
			}
		}
		return "", false
	}
	var keys []string
	for k := range agg.ViolCount {
		keys = append(keys, k)
	}
	sort.Strings(keys)
	unknownViolations := int64(0)
	knownSeen := 0
	for _, key := range keys {
		if what, ok := isKnown(key); ok {
			fmt.Printf("KNOWN-FINDING: property=%s %s [key=%q, seen %d×]\n", c.prop, what, key, agg.ViolCount[key])
			knownSeen++
			continue
		}
		unknownViolations += agg.ViolCount[key]
	}
	printed := 0
	for _, key := range keys {
		if _, ok := isKnown(key); ok {
			continue
		}
		for _, v := range agg.Violations {
			if v.Key == key {
				if printed < 12 {
					fmt.Printf("VIOLATION property=%s replay=%s\n    key: %s (seen %d×)\n    %s\n", c.prop, v.Replay, key, agg.ViolCount[key], indent(firstLines(v.Msg, 25)))
					printed++
				}
				break
			}
		}
	}
	incTotal := int64(0)
	for r, n := range agg.Inconclusive {
		fmt.Printf("INCONCLUSIVE property=%s %d× %s\n", c.prop, n, r)
		incTotal += n
	}
	for _, pr := range agg.Problems {
		fmt.Printf("PROBLEM property=%s %s\n", c.prop, pr)
	}

	planned := int64(0)
	if p.Planned != nil {
		planned = p.Planned(c.tier, c.seed)
	}
	// evidence
	cov := map[string]any{}
	cov["evaluations"] = agg.Evaluations
	nt := int64(len(agg.Sets["nontrivial"]))
	cov["distinct_nontrivial"] = nt
	cov["rule"] = p.Rule
	samples := []any{}
	for _, s := range agg.Samples {
		var v any
		if json.Unmarshal(s, &v) == nil {
			samples = append(samples, v)
		}
	}
	cov["samples"] = samples
	if p.Exhaustive != nil && p.Exhaustive(c.tier) && len(agg.Problems) == 0 && incTotal == 0 {
		cov["exhaustive"] = true
	}
	if planned > 0 {
		cov["planned_cases"] = planned
	}
	cov["inconclusive"] = incTotal
	cov["children"] = len(kids)
	cov["race_children"] = nrace
	counters := map[string]int64{}
	for n, v := range agg.Counters {
		counters[n] = v
	}
	if nrace > 0 {
		counters["race_reports"] += 0 // make the (hopefully zero) number of race detector reports explicit
		cov["race_detector_reports"] = counters["race_reports"]
	}
	cov["observed"] = counters
	distinct := map[string]int{}
	for n, m := range agg.Sets {
		distinct[n] = len(m)
	}
	cov["distinct_sets"] = distinct
	if len(agg.Notes) > 0 {
		if len(agg.Notes) > 10 {
			agg.Notes = agg.Notes[:10]
		}
		cov["notes"] = agg.Notes
	}
	cov["known_findings_seen"] = knownSeen
	assumptions := p.Assumptions
	if assumptions == nil {
		assumptions = []string{}
	}
	ev := map[string]any{
		"property_id": c.prop,
		"tier":        c.tier,
		"seed":        c.seed,
		"level":       p.Level,
		"coverage":    cov,
		"assumptions": assumptions,
		"wall_s":      float64(int(time.Since(startT).Seconds()*100)) / 100,
		"violations":  unknownViolations,
	}
	if *evidence != "" {
		b, _ := json.MarshalIndent(ev, "", " ")
		_ = os.MkdirAll(filepath.Dir(*evidence), 0755)
		if err := os.WriteFile(*evidence, append(b, '\n'), 0644); err != nil {
			fmt.Println("PROBLEM cannot write evidence:", err)
			return 2
		}
	}
	fmt.Printf("SUMMARY property=%s tier=%s seed=%d evaluations=%d distinct_nontrivial=%d violations=%d known=%d inconclusive=%d wall=%.1fs\n",
		c.prop, c.tier, c.seed, agg.Evaluations, nt, unknownViolations, knownSeen, incTotal, time.Since(startT).Seconds())
	var cn []string
	for n := range counters {
		cn = append(cn, n)
	}
	sort.Strings(cn)
	for _, n := range cn {
		fmt.Printf("    observed %-40s %d\n", n, counters[n])
	}
	var dn []string
	for n := range distinct {
		dn = append(dn, n)
	}
	sort.Strings(dn)
	for _, n := range dn {
		fmt.Printf("    distinct %-40s %d\n", n, distinct[n])
	}
	if unknownViolations > 0 {
		return 1
	}
	if len(agg.Problems) > 0 {
		return 2
	}
	if planned > 0 && agg.Evaluations < planned/2 {
		fmt.Printf("PROBLEM property=%s only %d of %d planned cases were observed\n", c.prop, agg.Evaluations, planned)
		return 2
	}
	if agg.Evaluations == 0 || nt < 2 {
		fmt.Printf("PROBLEM property=%s the monitors observed too little (evaluations=%d, distinct_nontrivial=%d)\n", c.prop, agg.Evaluations, nt)
		return 2
	}
	return 0
}

func shardsFor(k *childState, nshards, nrace int) int {
	if k.race {
		return nrace
	}
	return nshards
}

func indent(s string) string { return strings.ReplaceAll(s, "\n", "\n    ") }

func firstLines(s string, n int) string {
	lines := strings.Split(s, "\n")
	if len(lines) > n {
		lines = append(lines[:n], "…")
	}
	return strings.Join(lines, "\n")
}

func raceSite(blk string) string {
	// fingerprint: the first two function names that belong to klog
	var fns []string
	sc := bufio.NewScanner(strings.NewReader(blk))
	for sc.Scan() {
		l := strings.TrimSpace(sc.Text())
		if strings.HasPrefix(l, "github.com/jotaen/klog/") {
			if i := strings.LastIndex(l, "("); i > 0 {
				l = l[:i]
			}
			fns = append(fns, strings.TrimPrefix(l, "github.com/jotaen/klog/"))
			if len(fns) == 2 {
				break
			}
		}
	}
	return strings.Join(fns, " | ")
}

// launch runs one child to completion. status: done | crashed | timeout.
func launch(exe, racebin string, c *commonFlags, k *childState, nshards, nrace int, watchdog time.Duration) (crashedCase int64, crashMsg, crashSite string, inKlog bool, status string) {
	_ = os.MkdirAll(k.dir, 0755)
	bin := exe
	n := nshards
	if k.race {
		bin = racebin
		n = nrace
	}
	var skips []string
	for _, s := range k.skip {
		skips = append(skips, strconv.FormatInt(s, 10))
	}
	args := []string{"child", "--prop", c.prop, "--tier", c.tier, "--seed", strconv.FormatUint(c.seed, 10),
		"--shard", strconv.Itoa(k.shard), "--nshards", strconv.Itoa(n), "--dir", k.dir,
		"--klogbin", c.klogbin, "--replaydir", c.replaydir, "--skip", strings.Join(skips, ",")}
	if k.race {
		args = append(args, "--race")
	}
	cmd := exec.Command(bin, args...)
	outf, _ := os.OpenFile(filepath.Join(k.dir, fmt.Sprintf("out.%d.txt", k.restarts)), os.O_CREATE|os.O_WRONLY|os.O_TRUNC, 0644)
	defer outf.Close()
	cmd.Stdout = outf
	cmd.Stderr = outf
	cmd.Env = append(os.Environ(), "GOTRACEBACK=all")
	if k.race {
		cmd.Env = append(cmd.Env, "GORACE=halt_on_error=0 exitcode=0 log_path="+filepath.Join(k.dir, "race"))
	}
	if err := cmd.Start(); err != nil {
		return -1, "cannot start child: " + err.Error(), "start", false, "crashed"
	}
	done := make(chan error, 1)
	go func() { done <- cmd.Wait() }()
	select {
	case err := <-done:
		if err == nil {
			return 0, "", "", false, "done"
		}
	case <-time.After(watchdog):
		_ = cmd.Process.Signal(syscall.SIGQUIT)
		select {
		case <-done:
		case <-time.After(5 * time.Second):
			_ = cmd.Process.Kill()
			<-done
		}
		cc, msg := readJournal(k.dir)
		return cc, msg, "", false, "timeout"
	}
	// crashed: find the fatal case and the panic message
	crashedCase, crashMsg = readJournal(k.dir)
	ob, _ := os.ReadFile(outf.Name())
	out := string(ob)
	tail := out
	if i := strings.Index(out, "panic: "); i >= 0 {
		tail = out[i:]
	} else if i := strings.Index(out, "fatal error: "); i >= 0 {
		tail = out[i:]
	}
	value := tail
	if i := strings.IndexByte(value, '\n'); i >= 0 {
		value = value[:i]
	}
	crashSite = PanicSite(value, tail)
	inKlog = strings.Contains(tail, "github.com/jotaen/klog/")
	crashMsg += firstLines(tail, 40)
	return crashedCase, crashMsg, crashSite, inKlog, "crashed"
}

func readJournal(dir string) (int64, string) {
	if b, err := os.ReadFile(filepath.Join(dir, "current.bin")); err == nil && len(b) >= 16 {
		c := int64(binary.LittleEndian.Uint64(b[0:]))
		ln := int(binary.LittleEndian.Uint64(b[8:]))
		if ln > len(b)-16 {
			ln = len(b) - 16
		}
		inp := b[16 : 16+ln]
		return c, fmt.Sprintf("journaled case input (%d bytes): %q\n", ln, truncateBytes(inp, 2000))
	}
	return -1, ""
}

// replayAlone re-executes one case in a fresh child; true = it did not finish within the limit.
func replayAlone(exe, racebin string, c *commonFlags, k *childState, nshards, nrace int, cs int64, limit time.Duration) bool {
	bin, n := exe, nshards
	if k.race {
		bin, n = racebin, nrace
	}
	dir := k.dir + "-alone"
	_ = os.MkdirAll(dir, 0755)
	args := []string{"child", "--prop", c.prop, "--tier", c.tier, "--seed", strconv.FormatUint(c.seed, 10), "--shard", strconv.Itoa(k.shard), "--nshards", strconv.Itoa(n),
		"--dir", dir, "--klogbin", c.klogbin, "--replaydir", filepath.Join(dir, "replay"), "--only", strconv.FormatInt(cs, 10)}
	if k.race {
		args = append(args, "--race")
	}
	cmd := exec.Command(bin, args...)
	if err := cmd.Start(); err != nil {
		return false
	}
	done := make(chan error, 1)
	go func() { done <- cmd.Wait() }()
	select {
	case <-done:
		return false
	case <-time.After(limit):
		_ = cmd.Process.Kill()
		<-done
		return true
	}
}

func truncateBytes(b []byte, n int) []byte {
	if len(b) > n {
		return b[:n]
	}
	return b
}

// ProcessZones are the process-wide local time zones the children run under (klog must not depend on it): UTC, zones whose
// daylight-saving switch happens at local midnight (that midnight does not exist), a zone that skipped a whole day, odd offsets.
var ProcessZones = []string{"UTC", "America/Santiago", "Europe/Berlin", "America/Havana", "Pacific/Apia", "Asia/Kathmandu", "America/Sao_Paulo", "Atlantic/Azores",
	"America/New_York", "Australia/Lord_Howe", "America/Asuncion", "Pacific/Kiritimati", "Asia/Tehran", "Africa/Cairo", "Pacific/Chatham", "UTC"}

// SetProcessZone sets time.Local for this process according to the shard number (no-op if tzdata is missing).
func SetProcessZone(shard int) string {
	name := ProcessZones[((shard%len(ProcessZones))+len(ProcessZones))%len(ProcessZones)]
	if loc, err := time.LoadLocation(name); err == nil {
		time.Local = loc
		return name
	}
	return "UTC"
}
