# sourced by bin/check and bin/setup: offline Go environment and toolchain selection
export GOPROXY=off GOFLAGS=-mod=mod GOTOOLCHAIN=local GONOSUMDB=* GONOSUMCHECK=1 GOFLAGS="-mod=mod"
unset GOSUMDB 2>/dev/null || true
export GONOSUMDB='*' GOFLAGS=-mod=mod GONOPROXY= GOPRIVATE=
GO=""
for cand in /root/go/pkg/mod/golang.org/toolchain@v0.0.1-go1.24.0.linux-amd64/bin/go "$(command -v go1.26 2>/dev/null)" "$(command -v go 2>/dev/null)"; do
  if [ -n "$cand" ] && [ -x "$cand" ]; then GO="$cand"; break; fi
done
[ -n "$GO" ] || { echo "PROBLEM no Go toolchain found" >&2; exit 2; }
export GO
